(* C02 - Nodes are exactly the maximal unbranched paths.  Statements only.
   [mlink] (Spec/Unitig.v): key i merges through side d with key j entered through side d' iff i has exactly one
   extension on side d, is not a palindrome (unstranded), the k-mer it leads to is the key j <> i, j is not a
   palindrome, has exactly one extension on the facing side d', and the join predicate accepts the two payloads.
   [mstep i j] = some such link; [mconn] = its reflexive-symmetric-transitive closure; [same_node nodes kx ky] =
   some output node has both kx and ky among the canonical forms of its windows.
   Hypotheses: [tbl_ok], [exts_sym] (as C01; the output of filter_kmers and of remove_censored_exts is meant),
   symmetric join predicate.  [exts_closed] (every extension leads to a present k-mer) is NOT needed: a link
   requires both k-mers to be present anyway. *)
From Coq Require Import NArith List Bool Arith Permutation Relations.
From DBG Require Import Proofs.AbstractWalk.
From DBG Require Import Spec.Dna Spec.GraphIndex Spec.Unitig Spec.CompressSpec Packed.ExtsModel Algo.Compress
  Check.GraphCheck Check.CompressHyp Proofs.CompressBasics Proofs.CompressRefine Proofs.CompressWalk
  Proofs.CompressProofs Proofs.UnitigProofs Proofs.CompressHypProofs Check.UnitigCheck Proofs.UnitigCheckProofs Proofs.UnitigOrder.
Import ListNotations.
Local Open Scope nat_scope.

Theorem C02_mlink_irrefl : forall D join stranded (T : table D) i d j d',
  mlink D join stranded T i d = Some (j, d') -> i <> j.
Proof. exact mlink_irrefl. Qed.
Print Assumptions C02_mlink_irrefl.

(* the link relation is symmetric (this is where exts_sym and the symmetry of join enter) *)
Theorem C02_link_symmetric : forall D join K stranded, 1 <= K -> forall T : table D,
  tbl_ok D K stranded T -> exts_sym D stranded T -> (forall a b, join a b = join b a) ->
  forall i j, mstep D join stranded T i j -> mstep D join stranded T j i.
Proof. exact mstep_sym. Qed.
Print Assumptions C02_link_symmetric.

(* Two keys share a node iff they are connected by a chain of mergeable links. *)
Theorem C02_same_node_iff : forall D reduce join K stranded, 1 <= K -> forall T : table D,
  tbl_ok D K stranded T -> exts_sym D stranded T -> (forall a b, join a b = join b a) ->
  exists nodes, compress_kmers D reduce join stranded T = Some nodes /\
    forall i j, i < length T -> j < length T ->
      (same_node D K stranded nodes (kkey D T i) (kkey D T j) <-> mconn D join stranded T i j).
Proof. exact same_node_iff. Qed.
Print Assumptions C02_same_node_iff.

(* hence no two output nodes could be merged ... *)
Theorem C02_no_mergeable_pair_across : forall D reduce join K stranded, 1 <= K -> forall T : table D,
  tbl_ok D K stranded T -> exts_sym D stranded T -> (forall a b, join a b = join b a) ->
  exists nodes, compress_kmers D reduce join stranded T = Some nodes /\
    forall i j, mstep D join stranded T i j -> same_node D K stranded nodes (kkey D T i) (kkey D T j).
Proof. exact no_mergeable_pair_across. Qed.
Print Assumptions C02_no_mergeable_pair_across.

(* ... and no node hides a branch, a palindrome or a predicate boundary: the keys of a node, in window order,
   are pairwise distinct and every junction is a mergeable link. *)
Theorem C02_no_hidden_branch : forall D reduce join K stranded, 1 <= K -> forall T : table D,
  tbl_ok D K stranded T -> exts_sym D stranded T -> (forall a b, join a b = join b a) ->
  exists nodes, compress_kmers D reduce join stranded T = Some nodes /\
    forall n, In n nodes -> exists ids, node_keys D K stranded n = map (kkey D T) ids /\ NoDup ids /\
      linked (mstep D join stranded T) ids.
Proof. exact no_hidden_branch. Qed.
Print Assumptions C02_no_hidden_branch.

(* The boolean checker run on the IMPLEMENTATION's nodes (path form: table well-formed, window keys of all nodes
   a permutation of the table, every junction inside a node a mergeable link, no mergeable link leaving a node)
   is sound for the property: acceptance implies same_node <-> mconn on the implementation's output. *)
Theorem C02_chk_c02p_sound : forall D join K stranded (T : table D) (nodes : list (node D)),
  chk_c02p D join K stranded T nodes = true ->
  tbl_ok D K stranded T /\
  forall i j, i < length T -> j < length T ->
    (same_node D K stranded nodes (kkey D T i) (kkey D T j) <-> mconn D join stranded T i j).
Proof. exact chk_c02p_sound. Qed.
Print Assumptions C02_chk_c02p_sound.

(* Uniqueness of the decomposition.  Full statement (NOT proved at sequence level):
     forall T T', Permutation T T' -> the multisets of node sequences of compress T and compress T' agree up to
     replacing a sequence w by rc w (unstranded) and rotating the sequence of an isolated cycle.
   Proved (partition level): the order in which the hash table iterates its keys does not change which keys
   share a node.  Together with C01_node_facts (the windows of a node are the oriented k-mers of a path through
   exactly these keys, consecutive ones linked) what remains unproved is only that the SAME key set is spelled as
   the same path up to reversal/rotation. *)
Theorem C02_decomposition_unique_partial : forall D reduce join K stranded, 1 <= K ->
  (forall a b, join a b = join b a) -> forall T T' : table D,
  tbl_ok D K stranded T -> exts_sym D stranded T -> Permutation T T' ->
  exists nodes nodes', compress_kmers D reduce join stranded T = Some nodes /\
    compress_kmers D reduce join stranded T' = Some nodes' /\
    forall kx ky, In kx (keys D T) -> In ky (keys D T) ->
      (same_node D K stranded nodes kx ky <-> same_node D K stranded nodes' kx ky).
Proof. exact order_independent. Qed.
Print Assumptions C02_decomposition_unique_partial.

(* non-vacuity: the table of Properties/C01.v with the colour-equality join predicate *)
Definition C02_ex_keys : list dna :=
  nodup (list_eq_dec N.eq_dec) (map canon (kmers 4 [0;1;2;3;3;2;1;0;0;1;3;1;1;2;0]%N)).
Definition C02_ex_table : table pay :=
  map (fun p => (fst p, derive_exts false C02_ex_keys (fst p), (if Nat.ltb (snd p) 7 then 0%N else 1%N, [N.of_nat (snd p)])))
      (combine C02_ex_keys (seq 0 (length C02_ex_keys))).
Example C02_nonvacuous :
  tbl_ok pay 4 false C02_ex_table /\ exts_sym pay false C02_ex_table /\
  (forall a b, pay_join 1 a b = pay_join 1 b a) /\
  compress_kmers pay pay_reduce (pay_join 1) false C02_ex_table =
    Some [([0;1;2;3], 129, (0, [0])); ([0;0;1;2], 130, (0, [1])); ([3;2;1;0], 24, (0, [2]));
          ([2;1;0;0;1], 200, (0, [3;4])); ([0;0;1;3;1], 34, (0, [5;6])); ([1;3;1;1;2;0], 1, (1, [7;8;9]))]%N.
Proof.
  split; [apply tbl_okb_sound; vm_compute; reflexivity|].
  split; [apply exts_symb_sound; vm_compute; reflexivity|].
  split; [intros a b; unfold pay_join; cbn; apply N.eqb_sym | vm_compute; reflexivity].
Qed.

(* ==== sequence-level uniqueness (work package compose1) ========================================================= *)
(* C02_decomposition_unique, FULL: for a permutation T' of the table T (any iteration order of the hash table), every
   node n of compress_kmers T has a partner n' among the nodes of compress_kmers T' with the same key set and
   - the same sequence, or
   - (unstranded only) the reverse-complemented sequence, or
   - when n is an isolated cycle ([cycle_node]: the key of its last k-mer is mergeably linked to the key of its first),
     a k-mer list that is a rotation ([rot r]) of the k-mer list of n or (unstranded only) of rc n.
   (By symmetry of Permutation the same holds from T' to T, so the correspondence is a bijection of the two node
   lists, the key sets being disjoint.)  Payloads and terminal extensions are not compared here (C01 describes them per
   node).  Proof: Proofs/ChainUnique.v (two chains of a deterministic, injective, reversal-symmetric step without
   repeated vertex over the same vertex set are equal, reversed, or - if the chain closes - rotations) instantiated in
   Proofs/UnitigSeqUnique.v with the k-mers of a node, each with the side through which the walk enters it, and the
   static step knext read on keys, which does not depend on the order of the table. *)
From DBG Require Import Proofs.ChainUnique Proofs.UnitigSeqUnique.

Theorem C02_decomposition_unique : forall D reduce join K stranded, 1 <= K ->
  (forall a b, join a b = join b a) -> forall T T' : table D,
  tbl_ok D K stranded T -> exts_sym D stranded T -> Permutation T T' ->
  exists nodes nodes', compress_kmers D reduce join stranded T = Some nodes /\
    compress_kmers D reduce join stranded T' = Some nodes' /\
    forall n, In n nodes -> exists n', In n' nodes' /\
      (forall k, In k (node_keys D K stranded n) <-> In k (node_keys D K stranded n')) /\
      (n_seq D n' = n_seq D n \/
       (stranded = false /\ n_seq D n' = rc (n_seq D n)) \/
       (cycle_node D join K stranded T n /\ exists r,
          node_windows D K n' = rot r (node_windows D K n) \/
          (stranded = false /\ node_windows D K n' = rot r (kmers K (rc (n_seq D n)))))).
Proof. exact decomposition_unique. Qed.
Print Assumptions C02_decomposition_unique.

(* the generic lemma *)
Theorem C02_chain_unique : forall (O V : Type) (nxt : O -> option O) (rv : O -> O) (vtx : O -> V),
  (forall a, rv (rv a) = a) -> (forall a, rv a <> a) -> (forall a, vtx (rv a) = vtx a) ->
  (forall a b, vtx a = vtx b -> b = a \/ b = rv a) ->
  (forall a b c, nxt a = Some c -> nxt b = Some c -> a = b) -> (forall a b, nxt a = Some b -> nxt (rv b) = Some (rv a)) ->
  forall P P' d, P <> [] -> ochain O nxt P -> ochain O nxt P' ->
  NoDup (map vtx P) -> NoDup (map vtx P') -> (forall v, In v (map vtx P) <-> In v (map vtx P')) ->
  P' = P \/ P' = rev (map rv P) \/
  (nxt (last P d) = Some (hd d P) /\ exists r, P' = rot r P \/ P' = rot r (rev (map rv P))).
Proof. exact ochain_unique. Qed.
Print Assumptions C02_chain_unique.

(* non-vacuity: the example table rotated by 8 positions: the five-k-mer node AACTCCGA comes out reverse-complemented
   (TCGGAGTT), the other nodes unchanged *)
Example C02_nonvacuous_unique :
  let T' := skipn 8 C02_ex_table ++ firstn 8 C02_ex_table in
  Permutation C02_ex_table T' /\
  option_map (map (n_seq pay)) (compress_kmers pay pay_reduce (pay_join 0) false C02_ex_table) =
    Some [[0;1;2;3]; [0;0;1;2]; [3;2;1;0]; [2;1;0;0;1]; [0;0;1;3;1;1;2;0]]%N /\
  option_map (map (n_seq pay)) (compress_kmers pay pay_reduce (pay_join 0) false T') =
    Some [[3;1;2;2;0;2;3;3]; [0;1;2;3]; [0;0;1;2]; [3;2;1;0]; [2;1;0;0;1]]%N /\
  rc [0;0;1;3;1;1;2;0]%N = [3;1;2;2;0;2;3;3]%N.
Proof.
  cbv zeta. split.
  - rewrite <- (firstn_skipn 8 C02_ex_table) at 1. apply Permutation_app_comm.
  - repeat split; vm_compute; reflexivity.
Qed.
Print Assumptions C02_nonvacuous_unique.
