(* C15 - String slices are exact, composable views.  Statements only. *)
From Coq Require Import NArith List Bool Arith.
From DBG Require Import Spec.Dna Packed.KmerModel Packed.DnaStringModel Packed.SliceModel Algo.SeqHist Algo.Iter
  Proofs.DnaStringProofs Proofs.SliceProofs Proofs.IterProofs Proofs.HammingProofs.
Import ListNotations.
Open Scope N_scope.

(* A slice (start, length, is_rc) of a DnaString denotes [sl_view]: the sub-list, reverse-complemented when flagged. *)
Theorem C15_get : forall d, d_inv d -> forall s i, sl_ok (d_len d) s -> (i < s_length s)%nat ->
  sl_get d s i = Some (nth i (sl_view (d_abs d) s) 0).
Proof. exact SliceProofs.sl_get_spec. Qed.
Theorem C15_bytes : forall d, d_inv d -> forall s, sl_ok (d_len d) s -> sl_bytes d s = Some (sl_view (d_abs d) s).
Proof. exact sl_bytes_spec. Qed.
(* ascii, text (to_dna_string / Display), Debug (repaired code; < 256 bases - longer slices print a summary, specified
   as such) and to_owned all render the view *)
Theorem C15_render : forall d, d_inv d -> forall s, sl_ok (d_len d) s ->
  sl_ascii d s = Some (text (sl_view (d_abs d) s)) /\ sl_text d s = Some (text (sl_view (d_abs d) s)) /\
  ((s_length s < 256)%nat -> sl_debug d s = Some (text (sl_view (d_abs d) s))) /\
  exists o, sl_to_owned d s = Some o /\ d_inv o /\ d_abs o = sl_view (d_abs d) s.
Proof. exact sl_render_spec. Qed.

(* Composition: prefix / suffix / interval, then ANY interleaving of slice-of-slice and rc, denotes the same chain
   of operations on the plain base vector; the coordinates stay inside the string. *)
Theorem C15_composition : forall d ops s, d_inv d -> forallb nested_op (tl ops) = true -> sl_hist d ops = Some s ->
  sl_ok (d_len d) s /\ sl_view (d_abs d) s = sview (d_abs d) ops.
Proof. exact sl_hist_refines. Qed.
Theorem C15_step_total : forall s o, nested_op o = true ->
  (match o with SSlice a b => (a <= b)%nat /\ (b <= s_length s)%nat | _ => True end) ->
  exists s', sl_step s o = Some s'.
Proof. exact sl_step_total. Qed.

Theorem C15_eq : forall d1 s1 d2 s2, d_inv d1 -> d_inv d2 -> sl_ok (d_len d1) s1 -> sl_ok (d_len d2) s2 ->
  sl_eq d1 s1 d2 s2 = Some (dna_eqb (sl_view (d_abs d1) s1) (sl_view (d_abs d2) s2)).
Proof. exact sl_eq_spec. Qed.

(* Hamming distance of two equal-length slices = number of differing positions of the two views: for EVERY length and
   offset (whole 32-base blocks through Kmer32, then the tail), forward and reverse-complemented views alike.
   Never panics on equal lengths. *)
Theorem C15_hamming_dist : forall d1 d2 s1 s2, d_inv d1 -> d_inv d2 -> sl_ok (d_len d1) s1 -> sl_ok (d_len d2) s2 ->
  s_length s1 = s_length s2 ->
  sl_hamming_dist d1 s1 d2 s2 = Some (count_diff (sl_view (d_abs d1) s1) (sl_view (d_abs d2) s2)).
Proof. exact sl_hamming_spec. Qed.
(* k-mers read from a slice (any shipped k-mer type, forward or rc view, any offset) are the k-mers of the view *)
Theorem C15_get_kmer : forall c, In c shipped -> forall d s pos, d_inv d ->
  (s_start s + s_length s <= d_len d)%nat -> (pos + kK c <= s_length s)%nat ->
  exists r, sl_get_kmer c d s pos = Some r /\ wf (kK c) r /\ decode (kK c) r = kmer_at (kK c) (sl_view (d_abs d) s) pos.
Proof. exact sl_get_kmer_spec. Qed.
Example C15_hamming_nonvacuous :
  match d_from_bytes (repeat 1 40 ++ [2; 3]), d_from_bytes ([3; 0] ++ repeat 2 37 ++ [1; 2; 2]) with
  | Some a, Some b =>
      sl_hamming_dist a {| s_start := 2; s_length := 40; s_rc := false |} b {| s_start := 1; s_length := 40; s_rc := true |}
      = Some 2
  | _, _ => False end.
Proof. vm_compute. reflexivity. Qed.

(* non-vacuity: AACCG, slice(1,5).rc().slice(1,3) = rc("ACCG")[1..3] = "GG" *)
Example C15_nonvacuous :
  match d_from_bytes [0; 0; 1; 1; 2] with
  | Some d => match sl_hist d [SSlice 1 5; SRc; SSlice 1 3] with
              | Some s => sl_bytes d s = Some [2; 2] /\ s_rc s = true
              | None => False end
  | None => False end.
Proof. vm_compute. auto. Qed.

Print Assumptions C15_get.
Print Assumptions C15_bytes.
Print Assumptions C15_render.
Print Assumptions C15_composition.
Print Assumptions C15_eq.
Print Assumptions C15_hamming_dist.
Print Assumptions C15_get_kmer.
