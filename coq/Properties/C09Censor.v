(* C09, k-mer level, WITH a censor list (work package censor).
   "Re-compressing any valid graph (fully, partially or not at all compressed), optionally censoring a set of nodes,
   returns a graph whose k-mers are exactly those of the non-censored nodes, partitioned into the maximal unbranched
   paths of the surviving adjacencies, with payloads folded by the caller's reduction and no extension left pointing at a
   removed or absent node."
   Properties/C09.v proves this at node level for every censor list and at k-mer level only without censoring
   (C09X_recompress_unitig).  Here: for every censor list c (repeats, out-of-range ids allowed), on every graph G with
   [lgraph_ok S' G] (Proofs/LooseGraph.v; dangling extension bits allowed) whose canonical k-mers are pairwise distinct,
   compress_graph G (Some c) returns, and its result is THE unitig graph of the surviving adjacencies:
     - its k-mers are those of [surv_nodes G c], the nodes of G whose id is not in c;
     - its link set is SL, the part of S' whose links have both k-mers among the surviving k-mers;
     - every step inside a node is a merge of its own link set, every merge of its link set is a step inside a node (or
       closes it) ([unitig_graph], Check/PipelineCheck.v);
     - every node carries the ids / colour of its k-mers ([payload_ok]).
   Proof: Proofs/RecompCensor.v (an extension bit survives fix_exts (Some survivors) iff its target k-mer is a surviving
   k-mer; the surviving nodes of the restricted graph are lnode_ok w.r.t. SL) + Proofs/RecompCensorMain.v (the node paths
   of the walk on the restricted graph - C09X theorems, valid for every censor list - lifted to k-mers; generalises
   Section Main of Proofs/RecompUnitig.v from "all nodes" to a survivor set). *)
From Coq Require Import NArith List Bool Arith Permutation.
From DBG Require Import Spec.Dna Spec.GraphIndex Packed.ExtsModel Algo.Compress Algo.GraphModel Algo.Recompress
  Check.GraphCheck Check.RecompCheck.
From DBG Require Check.PipelineCheck Proofs.LooseGraph Proofs.LooseValid Proofs.RecompressProofs Proofs.RecompCensor Proofs.RecompCensorCheck.
Import ListNotations.

(* the surviving nodes: those of G whose id is not in the censor list, in the order of G *)
Theorem C09C_surv_nodes_spec : forall (G : list GraphCheck.node_t) (c : list nat) (n : GraphCheck.node_t),
  In n (RecompCensor.surv_nodes G c) <-> exists i, nth_error G i = Some n /\ ~ In i c.
Proof. exact RecompCensor.surv_nodes_spec. Qed.
Print Assumptions C09C_surv_nodes_spec.

Theorem C09C_surv_nodes_none : forall (G : list GraphCheck.node_t), RecompCensor.surv_nodes G [] = G.
Proof. exact RecompCensor.surv_nodes_none. Qed.
Print Assumptions C09C_surv_nodes_none.

Theorem C09C_surv_nodes_nodup : forall K st (G : list GraphCheck.node_t) (c : list nat),
  NoDup (PipelineCheck.graph_kmers K st G) -> NoDup (PipelineCheck.graph_kmers K st (RecompCensor.surv_nodes G c)).
Proof. exact RecompCensor.surv_nodes_nodup. Qed.
Print Assumptions C09C_surv_nodes_nodup.

(* the first step of compress_graph: an extension bit of node v survives fix_exts (Some survivors) exactly when it is
   set and the k-mer it leads to is a k-mer of a surviving node *)
Theorem C09C_restrict_keeps_iff : forall K st (kj : dna -> dna -> bool) (S' : list dna) (G : list GraphCheck.node_t) (c : list nat),
  (1 <= K)%nat -> LooseGraph.lgraph_ok K st kj S' G -> NoDup (PipelineCheck.graph_kmers K st G) ->
  forall v (n : GraphCheck.node_t) d b, nth_error G v = Some n -> b < 4 ->
  (RecompressProofs.keeps GraphCheck.pay K st G (Some (survivors GraphCheck.pay G (Some c))) v d b = true <->
   e_has_ext (PipelineCheck.nd_exts n) (dirb d) b = true /\
   In (PipelineCheck.cn st (GraphIndex.extend (term_kmer K (PipelineCheck.nd_seq n) d) b d))
      (flat_map (RecompCensorMain.nkv K st G) (survivors GraphCheck.pay G (Some c)))).
Proof. exact RecompCensor.kept_iff. Qed.
Print Assumptions C09C_restrict_keeps_iff.

(* MAIN: compress_graph with a censor list returns the unitig graph of the surviving adjacencies *)
Theorem C09C_recompress_unitig_censored :
  forall K st mode (idf colf : dna -> N) (S' SL : list dna) (G : list GraphCheck.node_t) (c : list nat) (out : list GraphCheck.node_t),
  (1 <= K)%nat ->
  LooseGraph.lgraph_ok K st (PipelineCheck.kjoin_f mode colf) S' G -> NoDup (PipelineCheck.graph_kmers K st G) ->
  (forall w, In w SL <-> In w S' /\
     LooseValid.both_in K st (fun k => In k (PipelineCheck.graph_kmers K st (RecompCensor.surv_nodes G c))) w) ->
  (forall w, In w SL -> exists v, wf_dna v /\ length v = S K /\ w = PipelineCheck.cn st v) ->
  PipelineCheck.payload_ok K st mode idf colf G ->
  compress_graph GraphCheck.pay GraphCheck.pay_reduce (GraphCheck.pay_join mode) K st G (Some c) = Some out ->
  Permutation (PipelineCheck.graph_kmers K st out) (PipelineCheck.graph_kmers K st (RecompCensor.surv_nodes G c)) /\
  (forall w, In w (PipelineCheck.graph_links K st out) <-> In w SL) /\
  PipelineCheck.unitig_graph K st mode colf out /\ PipelineCheck.payload_ok K st mode idf colf out.
Proof. exact RecompCensor.recompress_censor_unitig. Qed.
Print Assumptions C09C_recompress_unitig_censored.

(* totality: compress_graph returns for every censor list *)
Theorem C09C_recompress_unitig_censored_total :
  forall K st mode (colf : dna -> N) (S' : list dna) (G : list GraphCheck.node_t) (c : list nat),
  (1 <= K)%nat ->
  LooseGraph.lgraph_ok K st (PipelineCheck.kjoin_f mode colf) S' G -> NoDup (PipelineCheck.graph_kmers K st G) ->
  exists out, compress_graph GraphCheck.pay GraphCheck.pay_reduce (GraphCheck.pay_join mode) K st G (Some c) = Some out.
Proof. exact RecompCensor.recompress_censor_total. Qed.
Print Assumptions C09C_recompress_unitig_censored_total.

(* COROLLARY (via C04_unitig_unique): the result is the same assembly as ANY unitig graph of the surviving k-mers and the
   links between them *)
Theorem C09C_censor_same_assembly :
  forall K st mode (idf colf : dna -> N) (S' SL : list dna) (G : list GraphCheck.node_t) (c : list nat) (out g2 : list GraphCheck.node_t),
  (1 <= K)%nat ->
  LooseGraph.lgraph_ok K st (PipelineCheck.kjoin_f mode colf) S' G -> NoDup (PipelineCheck.graph_kmers K st G) ->
  (forall w, In w SL <-> In w S' /\
     LooseValid.both_in K st (fun k => In k (PipelineCheck.graph_kmers K st (RecompCensor.surv_nodes G c))) w) ->
  (forall w, In w SL -> exists v, wf_dna v /\ length v = S K /\ w = PipelineCheck.cn st v) ->
  PipelineCheck.payload_ok K st mode idf colf G ->
  compress_graph GraphCheck.pay GraphCheck.pay_reduce (GraphCheck.pay_join mode) K st G (Some c) = Some out ->
  PipelineCheck.unitig_graph K st mode colf g2 -> NoDup (PipelineCheck.graph_kmers K st g2) ->
  (forall x, In x (PipelineCheck.graph_kmers K st g2) <-> In x (PipelineCheck.graph_kmers K st (RecompCensor.surv_nodes G c))) ->
  (forall w, In w (PipelineCheck.graph_links K st g2) <-> In w SL) ->
  PipelineCheck.payload_ok K st mode idf colf g2 ->
  PipelineCheck.same_assembly K st mode out g2.
Proof. exact RecompCensor.censor_same_assembly. Qed.
Print Assumptions C09C_censor_same_assembly.

(* a sound boolean checker for lgraph_ok, and the main theorem with computable hypotheses (SL = a filter of S') *)
Theorem C09C_lgraph_okb_sound : forall K st (kj : dna -> dna -> bool) (SS : list dna) (g : list GraphCheck.node_t),
  RecompCensorCheck.lgraph_okb K st kj SS g = true -> LooseGraph.lgraph_ok K st kj SS g.
Proof. exact RecompCensorCheck.lgraph_okb_sound. Qed.
Print Assumptions C09C_lgraph_okb_sound.

Theorem C09C_recompress_unitig_censored_chk :
  forall K st mode (idf colf : dna -> N) (S' : list dna) (G : list GraphCheck.node_t) (c : list nat) (out : list GraphCheck.node_t),
  (1 <= K)%nat -> RecompCensorCheck.lgraph_okb K st (PipelineCheck.kjoin_f mode colf) S' G = true ->
  nodupb (PipelineCheck.graph_kmers K st G) = true -> RecompCensorCheck.links_wfb K st S' = true ->
  PipelineCheck.payload_ok K st mode idf colf G ->
  compress_graph GraphCheck.pay GraphCheck.pay_reduce (GraphCheck.pay_join mode) K st G (Some c) = Some out ->
  Permutation (PipelineCheck.graph_kmers K st out) (PipelineCheck.graph_kmers K st (RecompCensor.surv_nodes G c)) /\
  (forall w, In w (PipelineCheck.graph_links K st out) <->
             In w (RecompCensorCheck.links_between K st S' (PipelineCheck.graph_kmers K st (RecompCensor.surv_nodes G c)))) /\
  PipelineCheck.unitig_graph K st mode colf out /\ PipelineCheck.payload_ok K st mode idf colf out.
Proof. exact RecompCensorCheck.recompress_censor_unitig_chk. Qed.
Print Assumptions C09C_recompress_unitig_censored_chk.

(* ---- non-vacuity ------------------------------------------------------------------------------------------------
   K = 4, unstranded.  G = the one-k-mer-per-node graph of the canonical 4-mers of AACTCCGATG (ids 0..6, a path) plus the
   tip CCGT (stored as ACGG, id 7) hanging off TCCG (id 3, stored as CGGA), extension bits = membership; S' = its own link
   set.  All hypotheses hold.  Uncensored, compress_graph returns AACTCCG | CCGATG | ACGG (the branch at TCCG stops the
   walk).  Censoring the tip (id 7) lets the two path nodes MERGE: AACTCCGATG.  Censoring the middle node ACTC (id 1)
   SPLITS the first path: AACT | CTCCG | CCGATG | ACGG.  The censor list [7;1;7;99] (a repeat, an out-of-range id) does
   both: AACT | CTCCGATG; the surviving link set has 4 distinct links, and the theorem applies. *)
Definition C09C_idf (k : dna) : N := fold_left (fun a b => 4 * a + b)%N k 0%N.
Definition C09C_keys : list dna := map canon (kmers 4 [0;0;1;3;1;1;2;0;3;2]%N ++ [[1;1;2;3]%N]).
Definition C09C_G : list GraphCheck.node_t :=
  map (fun k => (k, Compress.derive_exts false C09C_keys k, (0%N, [C09C_idf k]))) C09C_keys.
Definition C09C_S' : list dna := PipelineCheck.graph_links 4 false C09C_G.
Definition C09C_c : list nat := [7; 1; 7; 99]%nat.

Example C09C_nonvacuous :
  RecompCensorCheck.lgraph_okb 4 false (PipelineCheck.kjoin_f 0 (fun _ => 0%N)) C09C_S' C09C_G = true /\
  nodupb (PipelineCheck.graph_kmers 4 false C09C_G) = true /\ RecompCensorCheck.links_wfb 4 false C09C_S' = true /\
  PipelineCheck.payload_ok 4 false 0 C09C_idf (fun _ => 0%N) C09C_G /\
  map (@length _) (map PipelineCheck.nd_seq C09C_G) = [4; 4; 4; 4; 4; 4; 4; 4]%nat /\
  option_map (map (fun n => PipelineCheck.nd_seq n))
    (compress_graph GraphCheck.pay GraphCheck.pay_reduce (GraphCheck.pay_join 0) 4 false C09C_G None) =
    Some [[0;0;1;3;1;1;2]; [1;1;2;0;3;2]; [0;1;2;2]]%N /\
  option_map (map (fun n => PipelineCheck.nd_seq n))
    (compress_graph GraphCheck.pay GraphCheck.pay_reduce (GraphCheck.pay_join 0) 4 false C09C_G (Some [7%nat])) =
    Some [[0;0;1;3;1;1;2;0;3;2]]%N /\
  option_map (map (fun n => PipelineCheck.nd_seq n))
    (compress_graph GraphCheck.pay GraphCheck.pay_reduce (GraphCheck.pay_join 0) 4 false C09C_G (Some [1%nat])) =
    Some [[0;0;1;3]; [1;3;1;1;2]; [1;1;2;0;3;2]; [0;1;2;2]]%N /\
  compress_graph GraphCheck.pay GraphCheck.pay_reduce (GraphCheck.pay_join 0) 4 false C09C_G (Some C09C_c) =
    Some [([0;0;1;3], 0, (0, [7])); ([1;3;1;1;2;0;3;2], 0, (0, [117; 104; 88; 54; 77]))]%N /\
  map PipelineCheck.nd_seq (RecompCensor.surv_nodes C09C_G C09C_c) =
    [[0;0;1;3]; [1;3;1;1]; [1;2;2;0]; [1;1;2;0]; [0;3;1;2]; [1;0;3;1]]%N /\
  nodup (list_eq_dec N.eq_dec)
    (RecompCensorCheck.links_between 4 false C09C_S' (PipelineCheck.graph_kmers 4 false (RecompCensor.surv_nodes C09C_G C09C_c))) =
    [[1;2;2;0;2]; [3;1;1;2;0]; [0;3;1;2;2]; [1;0;3;1;2]]%N.
Proof.
  split; [vm_compute; reflexivity|]. split; [vm_compute; reflexivity|]. split; [vm_compute; reflexivity|].
  split.
  { intros n Hn. vm_compute in Hn.
    repeat (destruct Hn as [<-|Hn]; [vm_compute; split; [apply Permutation_refl | split; [intros _ k [<-|[]]; reflexivity | intros _; eexists; split; [left; reflexivity | reflexivity]]]|]).
    destruct Hn. }
  repeat split; vm_compute; reflexivity.
Qed.
Print Assumptions C09C_nonvacuous.

(* ... and the conclusion of the theorem on it (instance of C09C_recompress_unitig_censored_chk) *)
Example C09C_nonvacuous_instance : forall out,
  compress_graph GraphCheck.pay GraphCheck.pay_reduce (GraphCheck.pay_join 0) 4 false C09C_G (Some C09C_c) = Some out ->
  Permutation (PipelineCheck.graph_kmers 4 false out) (PipelineCheck.graph_kmers 4 false (RecompCensor.surv_nodes C09C_G C09C_c)) /\
  (forall w, In w (PipelineCheck.graph_links 4 false out) <->
             In w (RecompCensorCheck.links_between 4 false C09C_S' (PipelineCheck.graph_kmers 4 false (RecompCensor.surv_nodes C09C_G C09C_c)))) /\
  PipelineCheck.unitig_graph 4 false 0 (fun _ => 0%N) out /\ PipelineCheck.payload_ok 4 false 0 C09C_idf (fun _ => 0%N) out.
Proof.
  intros out H. destruct C09C_nonvacuous as (H1 & H2 & H3 & H4 & _).
  exact (RecompCensorCheck.recompress_censor_unitig_chk 4 false 0 C09C_idf (fun _ => 0%N) C09C_S' C09C_G C09C_c out
           (le_S _ _ (le_S _ _ (le_S _ _ (le_n 1)))) H1 H2 H3 H4 H).
Qed.
Print Assumptions C09C_nonvacuous_instance.

(* ---- the censored singleton route ----------------------------------------------------------------------------------
   A k-mer table T (tbl_ok; extension bits = membership in a link set S', extensions towards absent k-mers allowed;
   payload of an entry = (colour, [id]) of its key) is a one-k-mer-per-node graph.  Re-compressing it with the censor list
   c gives the same assembly as compress_kmers of the table from which the censored entries were deleted and whose
   extensions were pruned (remove_censored_exts): deleting k-mers before or after building the graph is the same.
   (Formerly only checker-level: chk.c09.singleton_route, and only without censoring as a theorem: C09_singleton_route.) *)
From DBG Require Spec.CompressSpec Proofs.E2eDefs Proofs.RecompCensorTable.

Theorem C09C_table_lgraph_ok : forall K st, (1 <= K)%nat ->
  forall (kj : dna -> dna -> bool) (T : Compress.table GraphCheck.pay) (S' : list dna),
  CompressSpec.tbl_ok GraphCheck.pay K st T -> E2eDefs.links_loose GraphCheck.pay st T S' -> LooseGraph.lgraph_ok K st kj S' T.
Proof. exact RecompCensorTable.table_lgraph_ok_tbl. Qed.
Print Assumptions C09C_table_lgraph_ok.

Theorem C09C_censor_eq_filter :
  forall K st mode (idf colf : dna -> N) (T : Compress.table GraphCheck.pay) (S' SL : list dna) (c : list nat)
         (out g2 : list GraphCheck.node_t),
  (1 <= K)%nat -> CompressSpec.tbl_ok GraphCheck.pay K st T -> E2eDefs.links_loose GraphCheck.pay st T S' ->
  (forall ent, In ent T -> Compress.e_data GraphCheck.pay ent =
                           (colf (Compress.e_key GraphCheck.pay ent), [idf (Compress.e_key GraphCheck.pay ent)])) ->
  (forall w, In w SL <-> In w S' /\
     LooseValid.both_in K st (fun k => In k (PipelineCheck.graph_kmers K st (RecompCensor.surv_nodes T c))) w) ->
  (forall w, In w SL -> exists v, wf_dna v /\ length v = S K /\ w = PipelineCheck.cn st v) ->
  compress_graph GraphCheck.pay GraphCheck.pay_reduce (GraphCheck.pay_join mode) K st T (Some c) = Some out ->
  Compress.compress_kmers GraphCheck.pay GraphCheck.pay_reduce (GraphCheck.pay_join mode) st
    (remove_censored_exts GraphCheck.pay st (RecompCensor.surv_nodes T c)) = Some g2 ->
  PipelineCheck.same_assembly K st mode out g2.
Proof. exact RecompCensorTable.censor_eq_filter. Qed.
Print Assumptions C09C_censor_eq_filter.

(* non-vacuity: the graph of C09C_nonvacuous IS such a table; with the censor list [7;1;7;99] both routes give
   AACT | CTCCGATG (here even literally the same graph) *)
From DBG Require Check.CompressHyp Proofs.CompressHypProofs.
Example C09C_nonvacuous_table :
  CompressSpec.tbl_ok GraphCheck.pay 4 false C09C_G /\ E2eDefs.links_loose GraphCheck.pay false C09C_G C09C_S' /\
  (forall ent, In ent C09C_G -> Compress.e_data GraphCheck.pay ent = (0%N, [C09C_idf (Compress.e_key GraphCheck.pay ent)])) /\
  remove_censored_exts GraphCheck.pay false (RecompCensor.surv_nodes C09C_G C09C_c) =
    [([0;0;1;3], 0, (0, [7])); ([1;3;1;1], 64, (0, [117])); ([1;2;2;0], 72, (0, [104])); ([1;1;2;0], 136, (0, [88]));
     ([0;3;1;2], 66, (0, [54])); ([1;0;3;1], 64, (0, [77]))]%N /\
  Compress.compress_kmers GraphCheck.pay GraphCheck.pay_reduce (GraphCheck.pay_join 0) false
    (remove_censored_exts GraphCheck.pay false (RecompCensor.surv_nodes C09C_G C09C_c)) =
    Some [([0;0;1;3], 0, (0, [7])); ([1;3;1;1;2;0;3;2], 0, (0, [117; 104; 88; 54; 77]))]%N /\
  forall out g2,
    compress_graph GraphCheck.pay GraphCheck.pay_reduce (GraphCheck.pay_join 0) 4 false C09C_G (Some C09C_c) = Some out ->
    Compress.compress_kmers GraphCheck.pay GraphCheck.pay_reduce (GraphCheck.pay_join 0) false
      (remove_censored_exts GraphCheck.pay false (RecompCensor.surv_nodes C09C_G C09C_c)) = Some g2 ->
    PipelineCheck.same_assembly 4 false 0 out g2.
Proof.
  destruct C09C_nonvacuous as (H1 & H2 & H3 & H4 & _).
  assert (Hok : CompressSpec.tbl_ok GraphCheck.pay 4 false C09C_G)
    by (apply CompressHypProofs.tbl_okb_sound; vm_compute; reflexivity).
  assert (HL : E2eDefs.links_loose GraphCheck.pay false C09C_G C09C_S').
  { apply (RecompCensorTable.lgraph_table_links_loose 4 false (PipelineCheck.kjoin_f 0 (fun _ => 0%N))).
    - now apply RecompCensorTable.tbl_entries_ok.
    - now apply RecompCensorCheck.lgraph_okb_sound. }
  assert (Hd : forall ent, In ent C09C_G -> Compress.e_data GraphCheck.pay ent = (0%N, [C09C_idf (Compress.e_key GraphCheck.pay ent)])).
  { intros ent He. vm_compute in He. repeat (destruct He as [<-|He]; [vm_compute; reflexivity|]). destruct He. }
  split; [exact Hok|]. split; [exact HL|]. split; [exact Hd|]. split; [vm_compute; reflexivity|]. split; [vm_compute; reflexivity|].
  intros out g2 Hc Hk.
  apply (RecompCensorTable.censor_eq_filter 4 false 0 C09C_idf (fun _ => 0%N) C09C_G C09C_S'
           (RecompCensorCheck.links_between 4 false C09C_S' (PipelineCheck.graph_kmers 4 false (RecompCensor.surv_nodes C09C_G C09C_c)))
           C09C_c out g2 (le_S _ _ (le_S _ _ (le_S _ _ (le_n 1)))) Hok HL Hd); auto.
  - intro w. apply RecompCensorCheck.links_between_spec.
  - intros w Hw. apply RecompCensorCheck.links_between_spec in Hw as [Hw _].
    exact (RecompCensorCheck.links_wfb_sound 4 false C09C_S' H3 w Hw).
Qed.
Print Assumptions C09C_nonvacuous_table.
