(* C04 - Sharded assembly equals unsharded assembly.  Statements only.
   Models: Algo/Msp.v (msp_sequence), Algo/Filter.v (filter_kmers), Algo/GraphModel.v (pruning, combine),
   Algo/Compress.v, Algo/Recompress.v, composed in Algo/Pipeline.v ([sharded], [direct]).
   Spec (Check/PipelineCheck.v): [same_assembly] - same partition of the canonical k-mers into nodes (whatever the
   orientation / cycle cut of a node), same payload totals per node, same link set (canonical (K+1)-mers: the steps inside
   nodes and the extensions of node ends); [assembly_of reads g] - g's k-mers and links are exactly the retained k-mers
   and links of the reads (Layer S), its nodes are exactly the maximal unbranched paths of its link set, payloads are
   those of the node's k-mers.

   FULL STATEMENT (not proved here):
     sharded_eq_direct : forall reads (wf), K >= 4, P < K, injective perm, all thresholds / strandedness / variants,
       sharded ... reads orders = Some (bs, gs, g_s) -> direct ... reads order = Some g_d -> same_assembly g_s g_d.
   PROVED: every link lemma of the composition that is specific to sharding (C07+C08+C05 side, closed), the uniqueness
   of the assembly (closed), and [sharded_eq_direct_partial], which assumes exactly "each pipeline output is the
   assembly of the reads" - i.e. C01/C02/C03 for compress_kmers and C09 for compress_graph on the combined graph,
   whose proofs live in other work packages.  That proviso is decided by the verified checker [chk_assembly] on every
   implementation output of every run. *)
From Coq Require Import NArith List Bool Arith Permutation.
From DBG Require Import Gen.SourceConsts Spec.Dna Spec.ScanSpec Packed.ExtsMini Algo.KmerHist Algo.Scan Algo.Msp Algo.Filter
  Algo.GraphModel Algo.Pipeline Check.GraphCheck Check.PipelineCheck
  Proofs.MspProofs Proofs.FilterProofs Proofs.PipelineCheckProofs Proofs.UnitigUnique Proofs.ShardProofs Proofs.CombineProofs
  Proofs.PipelineProofs Proofs.TableSpecProofs Proofs.PipelineCheckComplete.
Import ListNotations.
Open Scope nat_scope.

(* ---- link lemma 1 (C07 covered_once + C08 piece_exact / bucket_pure / bucket_rc) ------------------------------
   For every read set within the size guards of msp_sequence: the pieces exist (no panic); the k-mer observations of
   all pieces, each taken with the piece's boundary extensions, are - in input order - exactly the observations of the
   whole reads (every observation once, with its true flanking bases); every observation made in a piece lies in the
   shard whose id is [SH] of its key, a function of the (canonical) k-mer alone: all observations of one k-mer are in
   the same shard. *)
Theorem C04_shard_observations : forall max_len K P perm stranded, params_ok max_len K P ->
  forall reads : list lread, Forall lread_ok reads ->
  exists ps, pieces_of max_len K P perm (negb stranded) reads = Some ps /\
    observations K stranded (map snd ps) = observations K stranded (whole_reads reads) /\
    (perm_ok P perm -> forall bq, In bq ps -> forall o, In o (obs1 K stranded (snd bq)) ->
       SH P perm (negb stranded) (key o) = fst bq) /\
    reads_ok (map snd ps).
Proof. exact shard_observations. Qed.

(* ... hence shard b sees, in input order, exactly the observations whose key has shard id b *)
Theorem C04_shard_obs_filter : forall max_len K P perm stranded, params_ok max_len K P ->
  forall (reads : list lread) ps b, Forall lread_ok reads -> perm_ok P perm ->
  pieces_of max_len K P perm (negb stranded) reads = Some ps ->
  observations K stranded (shard_seqs ps b) =
  filter (fun o => SH P perm (negb stranded) (key o) =? b)%N (observations K stranded (whole_reads reads)).
Proof. exact shard_obs_filter. Qed.

(* ---- link lemma 2 (C05 filter_spec): for ANY summarizer the table (and all_kmers) of shard b is the restriction of
   the global table to the keys with shard id b - for the reference grouping and for the filter_kmers model itself,
   any memory setting; in particular counts, and so every threshold, are those of the global run. *)
Theorem C04_shard_tables_restrict : forall max_len K P perm stranded, params_ok max_len K P -> perm_ok P perm ->
  forall DS (summarize : list (@obs N) -> bool * N * DS) ra (reads : list lread), Forall lread_ok reads ->
  forall ps, pieces_of max_len K P perm (negb stranded) reads = Some ps -> forall b,
  reference summarize ra K stranded (shard_seqs ps b) =
  restrict_out (fun k => SH P perm (negb stranded) k =? b)%N (reference summarize ra K stranded (whole_reads reads)).
Proof. intros ml K P perm st Hp Hperm DS. exact (shard_tables_restrict ml K P perm st Hp Hperm). Qed.
Theorem C04_shard_filter_restrict : forall max_len K P perm stranded, params_ok max_len K P -> perm_ok P perm ->
  forall DS (summarize : list (@obs N) -> bool * N * DS) ra (reads : list lread), Forall lread_ok reads ->
  forall ps, pieces_of max_len K P perm (negb stranded) reads = Some ps -> forall b size_of memory_size unit,
  4 <= K -> (1 <= memory_size * eff_unit unit)%N ->
  option_map fst (filter_kmers summarize ra K stranded size_of memory_size unit (shard_seqs ps b)) =
  Some (restrict_out (fun k => SH P perm (negb stranded) k =? b)%N (reference summarize ra K stranded (whole_reads reads))).
Proof. intros ml K P perm st Hp Hperm DS. exact (shard_filter_restrict ml K P perm st Hp Hperm). Qed.
(* the shard tables together are the global table, every key in exactly one shard *)
Theorem C04_shard_tables_union : forall max_len K P perm stranded, params_ok max_len K P -> perm_ok P perm ->
  forall DS (summarize : list (@obs N) -> bool * N * DS) ra (reads : list lread), Forall lread_ok reads ->
  forall ps, pieces_of max_len K P perm (negb stranded) reads = Some ps ->
  Permutation (flat_map (fun b => fst (reference summarize ra K stranded (shard_seqs ps b))) (buckets_of ps))
              (fst (reference summarize ra K stranded (whole_reads reads))).
Proof. intros ml K P perm st Hp Hperm DS. exact (shard_tables_union ml K P perm st Hp Hperm). Qed.
Theorem C04_shard_keys : forall max_len K P perm stranded, params_ok max_len K P -> perm_ok P perm ->
  forall DS (summarize : list (@obs N) -> bool * N * DS) ra (reads : list lread), Forall lread_ok reads ->
  forall ps, pieces_of max_len K P perm (negb stranded) reads = Some ps -> forall b e,
  In e (fst (reference summarize ra K stranded (shard_seqs ps b))) -> SH P perm (negb stranded) (fst (fst e)) = b.
Proof. intros ml K P perm st Hp Hperm DS. exact (shard_keys ml K P perm st Hp Hperm). Qed.

(* ... and the keys of the table that filter_kmers (CountFilterSet thr) hands to the compressor are exactly the retained
   k-mers of the Layer-S graph specification (first half of graph_exact at table level) *)
Theorem C04_table_keys_retained : forall K st thr ra (lreads : list lread),
  map (fun e => fst (fst e)) (fst (reference (count_filter_set thr) ra K st (whole_reads lreads))) =
  retained K st thr (map fst lreads).
Proof. exact table_keys_retained. Qed.

(* ---- link lemma 3: per-shard pruning (remove_censored_exts_sharded on the shard's part of the valid keys and of
   all_kmers) never removes an extension bit that the global pruning (remove_censored_exts) keeps, and only removes
   bits the k-mer had: shard tables lie between the globally pruned and the raw table. *)
Theorem C04_sharded_prune_sound : forall stranded (inshard : dna -> bool) keys allk kmer exts i,
  N.testbit (prune_exts stranded (key_in keys) kmer exts) i = true ->
  N.testbit (prune_exts stranded (fun x => key_in (filter inshard keys) x || negb (key_in (filter inshard allk) x)) kmer exts) i = true.
Proof. exact sharded_prune_sound. Qed.
Theorem C04_prune_exts_sub : forall stranded keep kmer exts i, N.testbit (prune_exts stranded keep kmer exts) i = true ->
  exists d b, In (d, b) dirs8 /\ bitpos (d, b) = i /\ ExtsModel.e_has_ext exts (Compress.dirb d) b = true /\
              keep (canon_s stranded (GraphIndex.extend kmer b d)) = true.
Proof. exact prune_exts_sub. Qed.

(* ---- link lemma 4: BaseGraph::combine is concatenation; shard graphs with duplicate-free k-mers carrying pairwise
   different shard ids combine into a graph with duplicate-free k-mers, so its node ends are pairwise distinct (the
   precondition of finish / of the validity of the combined graph) *)
Theorem C04_combine_spec : forall K stranded (sh : dna -> N) (bs : list N) (gs : list (list node_t)),
  NoDup bs ->
  Forall2 (fun b g => NoDup (graph_kmers K stranded g) /\ forall x, In x (graph_kmers K stranded g) -> sh x = b) bs gs ->
  NoDup (graph_kmers K stranded (combine_graphs gs)) /\
  (forall x, In x (graph_kmers K stranded (combine_graphs gs)) <-> exists g, In g gs /\ In x (graph_kmers K stranded g)) /\
  length (combine_graphs gs) = fold_right (fun g n => length g + n) 0 gs.
Proof. exact combine_spec. Qed.
Theorem C04_distinct_ends : forall K stranded g, 1 <= K -> Forall (node_wf K) g -> NoDup (graph_kmers K stranded g) ->
  NoDup (map (fun n => cn stranded (GraphIndex.first_kmer K (nd_seq n))) g) /\
  NoDup (map (fun n => cn stranded (GraphIndex.last_kmer K (nd_seq n))) g).
Proof. exact distinct_ends. Qed.

(* ---- the assembly is a function of (k-mer set, link set, per-k-mer payloads) ------------------------------------ *)
Theorem C04_unitig_unique : forall K stranded mode (idf colf : dna -> N) g1 g2,
  unitig_graph K stranded mode colf g1 -> unitig_graph K stranded mode colf g2 ->
  NoDup (graph_kmers K stranded g1) -> NoDup (graph_kmers K stranded g2) ->
  (forall x, In x (graph_kmers K stranded g1) <-> In x (graph_kmers K stranded g2)) ->
  (forall w, In w (graph_links K stranded g1) <-> In w (graph_links K stranded g2)) ->
  payload_ok K stranded mode idf colf g1 -> payload_ok K stranded mode idf colf g2 ->
  same_assembly K stranded mode g1 g2.
Proof. exact unitig_unique. Qed.
Theorem C04_assembly_unique : forall K st thr mode lreads g1 g2,
  assembly_of K st thr mode lreads g1 -> assembly_of K st thr mode lreads g2 -> same_assembly K st mode g1 g2.
Proof. exact assembly_unique. Qed.

(* ---- end to end, partial (see the header) ---------------------------------------------------------------------- *)
Theorem C04_sharded_eq_direct_partial : forall maxlen K P perm st thr mode variant lreads orders order bs gs g_s g_d,
  sharded maxlen K P perm st thr mode variant lreads orders = Some (bs, gs, g_s) ->
  direct K st thr mode 0 lreads order = Some g_d ->
  assembly_of K st thr mode lreads g_s -> assembly_of K st thr mode lreads g_d ->
  same_assembly K st mode g_s g_d.
Proof. exact sharded_eq_direct_partial. Qed.

(* ---- the verified checkers run on the implementation's outputs ---------------------------------------------------- *)
Theorem C04_chk_same_assembly_sound : forall K st mode g1 g2,
  chk_same_assembly K st mode g1 g2 = true -> same_assembly K st mode g1 g2.
Proof. exact chk_same_assembly_sound. Qed.
Theorem C04_chk_assembly_sound : forall K st thr mode lreads g,
  chk_assembly K st thr mode lreads g = true -> assembly_of K st thr mode lreads g.
Proof. exact chk_assembly_sound. Qed.
(* ... and complete: a rejection is a genuine failure of the specification, never a false alarm *)
Theorem C04_chk_same_assembly_complete : forall K st mode g1 g2,
  same_assembly K st mode g1 g2 -> chk_same_assembly K st mode g1 g2 = true.
Proof. exact chk_same_assembly_complete. Qed.
Theorem C04_chk_assembly_complete : forall K st thr mode lreads g,
  assembly_of K st thr mode lreads g -> chk_assembly K st thr mode lreads g = true.
Proof. exact chk_assembly_complete. Qed.
Theorem C04_chk_assembly_same : forall K st thr mode lreads g1 g2,
  chk_assembly K st thr mode lreads g1 = true -> chk_assembly K st thr mode lreads g2 = true ->
  same_assembly K st mode g1 g2.
Proof. exact chk_assembly_same. Qed.

(* ---- non-vacuity: K = 4, P = 2, unstranded, threshold 2, ACGGTCCATG twice (labels 0, 1) and CATGGTA once.
   Three shards (buckets 1, 3, 4) with 1 + 2 + 1 shard nodes; the k-mers seen once are censored; re-compression merges
   across the former shard boundaries into 2 nodes; both model pipelines satisfy the proviso of the partial theorem,
   their outputs differ as lists but are the same assembly. *)
Definition ex4_reads : list lread := [([0;1;2;2;3;1;1;0;3;2], 0); ([0;1;2;2;3;1;1;0;3;2], 1); ([1;0;3;2;2;3;0], 1)]%N.
Definition ex4_orders : list (list dna) :=
  Eval vm_compute in
    match pieces_of 64 4 2 None true ex4_reads with
    | Some ps => map (fun b => match filter_set 4 false 2 (shard_seqs ps b) with
                               | Some (T, _) => map (Compress.e_key pay) (sort_entries T) | None => [] end) (buckets_of ps)
    | None => []
    end.
Definition ex4_order : list dna :=
  Eval vm_compute in
    match filter_set 4 false 2 (whole_reads ex4_reads) with
    | Some (T, _) => rev (map (Compress.e_key pay) (sort_entries T)) | None => [] end.
Example C04_nonvacuous :
  exists bs gs g_s g_d,
    sharded 64 4 2 None false 2 0 2 ex4_reads ex4_orders = Some (bs, gs, g_s) /\
    direct 4 false 2 0 0 ex4_reads ex4_order = Some g_d /\
    bs = [1; 3; 4]%N /\ map (@length _) gs = [1; 2; 1] /\ length g_s = 2 /\ g_s <> g_d /\
    chk_assembly 4 false 2 0 ex4_reads g_s = true /\ chk_assembly 4 false 2 0 ex4_reads g_d = true /\
    chk_same_assembly 4 false 0 g_s g_d = true.
Proof.
  do 4 eexists. split; [vm_compute; reflexivity|]. split; [vm_compute; reflexivity|].
  repeat split; try (vm_compute; reflexivity). vm_compute. intros H. discriminate H.
Qed.
Example C04_nonvacuous_guards :
  params_ok 64%N 4 2 /\ Forall lread_ok ex4_reads /\ perm_ok 2 None.
Proof. split; [repeat split; cbv; auto; discriminate|]. split; [|exact I]. repeat constructor; cbv; auto. Qed.

Print Assumptions C04_shard_observations.
Print Assumptions C04_shard_obs_filter.
Print Assumptions C04_shard_tables_restrict.
Print Assumptions C04_shard_filter_restrict.
Print Assumptions C04_shard_tables_union.
Print Assumptions C04_shard_keys.
Print Assumptions C04_table_keys_retained.
Print Assumptions C04_sharded_prune_sound.
Print Assumptions C04_prune_exts_sub.
Print Assumptions C04_combine_spec.
Print Assumptions C04_distinct_ends.
Print Assumptions C04_unitig_unique.
Print Assumptions C04_assembly_unique.
Print Assumptions C04_sharded_eq_direct_partial.
Print Assumptions C04_chk_same_assembly_sound.
Print Assumptions C04_chk_assembly_sound.
Print Assumptions C04_chk_same_assembly_complete.
Print Assumptions C04_chk_assembly_complete.
Print Assumptions C04_chk_assembly_same.
Print Assumptions C04_nonvacuous.

(* ==== end to end for the DIRECT pipeline (work package e2e) ======================================================== *)
(* The direct model pipeline produces THE assembly of its reads: for every K >= 4 (the guard of C05's filter_spec: the
   bucket of a k-mer reads its first four bases), all reads over {A,C,G,T}, every threshold, both strandedness values,
   both join modes and every duplicate-free iteration order [order] of the k-mer hash table for which the model returns a
   graph, that graph has exactly the retained k-mers and exactly the links of the reads (Layer S: [retained],
   [spec_links]), its nodes are exactly the maximal unbranched paths of its own link set, and every node carries the
   ids / colour of its k-mers.  No checker is involved.
   [NoDup order] is forced by the MODEL only: [order] is the oracle input standing for BoomHashMap2's iteration order,
   which in the real code always lists every key exactly once; a list with a repeated key would make [reorder] build a
   table with a duplicated entry.
   Proof: Proofs/E2eObs.v (which extension bits the observations of a k-mer carry) -> Proofs/E2eTable.v (the table
   handed to the compressor, on Layer S: C05 filter_spec + count_filter_set + pruning + reorder) -> Proofs/E2eSym.v (such
   a table meets C01's hypotheses tbl_ok / exts_sym and C03's exts_sym_pal; inner steps of nodes are merges) ->
   Proofs/E2eGraph.v (k-mers, links, unbranched, maximal via C02 no_mergeable_pair_across, payloads) -> Proofs/E2eDirect.v. *)
From DBG Require Import Proofs.E2eDirect Proofs.E2eCorollaries.

Theorem C04_direct_assembly : forall K st thr mode (lreads : list lread) order g,
  4 <= K -> Forall (fun r => wf_dna (fst r)) lreads -> NoDup order ->
  direct K st thr mode 0 lreads order = Some g ->
  assembly_of K st thr mode lreads g.
Proof. exact direct_assembly. Qed.
Print Assumptions C04_direct_assembly.

(* ... and it never panics when [order] lists the keys of the filtered table (= the retained k-mers) in any order *)
Theorem C04_direct_total : forall K st thr mode (lreads : list lread) order,
  4 <= K -> Forall (fun r => wf_dna (fst r)) lreads ->
  Permutation order (retained K st thr (map fst lreads)) ->
  exists g, direct K st thr mode 0 lreads order = Some g.
Proof. exact direct_total. Qed.
Print Assumptions C04_direct_total.

Theorem C04_direct_correct : forall K st thr mode (lreads : list lread) order,
  4 <= K -> Forall (fun r => wf_dna (fst r)) lreads ->
  Permutation order (retained K st thr (map fst lreads)) ->
  exists g, direct K st thr mode 0 lreads order = Some g /\ assembly_of K st thr mode lreads g.
Proof. exact direct_correct. Qed.
Print Assumptions C04_direct_correct.

(* C04_sharded_eq_direct_partial without the proviso on the direct side.  STILL MISSING for the full statement: that
   the sharded pipeline's output is the assembly of the reads (C01/C02 per shard + C09 on the combined graph). *)
Theorem C04_sharded_eq_direct_partial2 : forall maxlen K P perm st thr mode variant (lreads : list lread) orders order bs gs g_s g_d,
  4 <= K -> Forall (fun r => wf_dna (fst r)) lreads -> NoDup order ->
  sharded maxlen K P perm st thr mode variant lreads orders = Some (bs, gs, g_s) ->
  direct K st thr mode 0 lreads order = Some g_d ->
  assembly_of K st thr mode lreads g_s ->
  same_assembly K st mode g_s g_d.
Proof. exact sharded_eq_direct_partial2. Qed.
Print Assumptions C04_sharded_eq_direct_partial2.

(* non-vacuity: the guards hold on the example above (threshold 2: pruning active; order = descending keys), the model
   returns a graph of two nodes; the same reads stranded with the colour-equality join (mode 1), threshold 1: two nodes;
   unstranded, mode 1, threshold 1: four nodes, one of them the palindrome CATG on its own *)
Definition ex4s_order : list dna := Eval vm_compute in rev (retained 4 true 1 (map fst ex4_reads)).
Definition ex4u_order : list dna := Eval vm_compute in rev (retained 4 false 1 (map fst ex4_reads)).
Example C04_direct_nonvacuous :
  4 <= 4 /\ Forall (fun r => wf_dna (fst r)) ex4_reads /\
  Permutation ex4_order (retained 4 false 2 (map fst ex4_reads)) /\ NoDup ex4_order /\
  (exists g, direct 4 false 2 0 0 ex4_reads ex4_order = Some g /\ length g = 2) /\
  Permutation ex4s_order (retained 4 true 1 (map fst ex4_reads)) /\
  (exists g, direct 4 true 1 1 0 ex4_reads ex4s_order = Some g /\ length g = 2) /\
  Permutation ex4u_order (retained 4 false 1 (map fst ex4_reads)) /\
  (exists g, direct 4 false 1 1 0 ex4_reads ex4u_order = Some g /\ map nd_seq g = [[0;1;2;2;3;1;1;0]; [3;2;2;3;0]; [1;0;3;2]; [0;3;2;2]]%N).
Proof.
  assert (P : Permutation ex4_order (retained 4 false 2 (map fst ex4_reads))).
  { replace ex4_order with (rev (retained 4 false 2 (map fst ex4_reads))) by (vm_compute; reflexivity).
    symmetry. apply Permutation_rev. }
  split; [auto|]. split; [repeat constructor; cbv; auto|]. split; [exact P|].
  split; [eapply Permutation_NoDup; [symmetry; exact P | apply retained_nodup]|].
  split; [eexists; split; vm_compute; reflexivity|].
  split; [replace ex4s_order with (rev (retained 4 true 1 (map fst ex4_reads))) by (vm_compute; reflexivity);
          symmetry; apply Permutation_rev|].
  split; [eexists; split; vm_compute; reflexivity|].
  split; [replace ex4u_order with (rev (retained 4 false 1 (map fst ex4_reads))) by (vm_compute; reflexivity);
          symmetry; apply Permutation_rev|].
  eexists; split; vm_compute; reflexivity.
Qed.
Print Assumptions C04_direct_nonvacuous.

(* the guard [NoDup order] cannot be dropped from C04_direct_assembly (for the MODEL: [order] is an oracle input): with the
   key ACCG listed twice the model builds a table with a duplicated entry and returns a graph that is not the assembly *)
Example C04_direct_order_guard_needed :
  exists (lreads : list lread) order g, Forall (fun r => wf_dna (fst r)) lreads /\ length order = 2 /\
    direct 4 false 1 0 0 lreads order = Some g /\ ~ assembly_of 4 false 1 0 lreads g.
Proof.
  exists [([0;1;2;2;3], 0)]%N, [[0;1;1;2]; [0;1;1;2]]%N. eexists. split; [repeat constructor; cbv; auto|].
  split; [reflexivity|]. split; [vm_compute; reflexivity|].
  intro H. apply chk_assembly_complete in H. vm_compute in H. discriminate H.
Qed.
Print Assumptions C04_direct_order_guard_needed.

(* ==== end to end for the SHARDED pipeline (work package e2e-sharded): THE property ================================= *)
(* The sharded model pipeline - msp_sequence per read, pieces grouped by bucket, per shard filter_kmers (CountFilterSet) ->
   sort -> remove_censored_exts_sharded with the shard's all_kmers (variant 2, what the harness and the real pipeline use;
   also variant 0 = no pruning) -> reorder -> compress_kmers, then BaseGraph::combine and compress_graph without
   censoring - produces THE assembly of its reads: exactly the retained k-mers, exactly the links of the reads between
   retained k-mers, nodes = the maximal unbranched paths of that link set, payloads of the node's k-mers.  No checker
   involved.  Guards: those of C07/C08 ([params_ok], [perm_ok], [lread_ok]: reads over {A,C,G,T} shorter than 2^32),
   K >= 4 (C05), variant <> 1 (variant 1 = remove_censored_exts per shard drops every link that crosses shards: see
   C04_sharded_variant_guard_needed) and - forced by the MODEL only - [Forall NoDup orders] (each order is the oracle
   input standing for the iteration order of one shard's BoomHashMap2).
   Proof: Proofs/ShardTable.v (each shard table on Layer S: keys = retained k-mers of the shard, bit (d,c) of k set iff the
   (K+1)-mer is observed and its other k-mer is retained or lies in ANOTHER shard; such a table meets C01's hypotheses and
   is [links_loose] w.r.t. one global "loose" link set) -> Proofs/LooseGraph.v (every shard graph, hence the combined graph:
   steps inside nodes are merges, node-end extension bits = the loose links at the end k-mer) -> Proofs/LooseValid.v (the
   combined graph is loosely valid, INCLUDING the symmetry of the links that cross shards; an extension bit resolves iff
   its target k-mer is retained; the pruned graph is valid and its link set is spec_links) -> Proofs/RecompUnitig.v
   (compress_graph on such a graph returns the unitig graph of its link set: C09 node paths lifted to k-mers) ->
   Proofs/E2eSharded.v. *)
From DBG Require Import Check.RecompLooseCheck Proofs.ShardTable Proofs.E2eSharded Proofs.E2eShardedCorollaries.
Open Scope nat_scope.

Theorem C04_sharded_assembly : forall max_len K P perm st thr mode variant (lreads : list lread) orders bs gs g,
  params_ok max_len K P -> perm_ok P perm -> 4 <= K -> Forall lread_ok lreads -> Forall (@NoDup dna) orders ->
  variant <> 1%N ->
  sharded max_len K P perm st thr mode variant lreads orders = Some (bs, gs, g) ->
  assembly_of K st thr mode lreads g.
Proof. exact sharded_assembly. Qed.
Print Assumptions C04_sharded_assembly.

(* ... and it never panics when every order lists the keys of its shard table (the retained k-mers with that shard id) *)
Theorem C04_sharded_total : forall max_len K P perm st thr mode variant (lreads : list lread),
  params_ok max_len K P -> perm_ok P perm -> 4 <= K -> Forall lread_ok lreads -> variant <> 1%N ->
  exists ps, pieces_of max_len K P perm (negb st) lreads = Some ps /\
    forall orders,
      Forall2 (fun b order => Permutation order (filter (fun k => (SH P perm (negb st) k =? b)%N) (retained K st thr (map fst lreads))))
              (buckets_of ps) orders ->
      exists gs g, sharded max_len K P perm st thr mode variant lreads orders = Some (buckets_of ps, gs, g) /\
                   assembly_of K st thr mode lreads g.
Proof. exact sharded_total. Qed.
Print Assumptions C04_sharded_total.

(* THE property C04: the sharded and the unsharded pipeline build the same assembly *)
Theorem C04_sharded_eq_direct : forall max_len K P perm st thr mode variant (lreads : list lread) orders order bs gs g_s g_d,
  params_ok max_len K P -> perm_ok P perm -> 4 <= K -> Forall lread_ok lreads -> Forall (@NoDup dna) orders -> NoDup order ->
  variant <> 1%N ->
  sharded max_len K P perm st thr mode variant lreads orders = Some (bs, gs, g_s) ->
  direct K st thr mode 0 lreads order = Some g_d ->
  same_assembly K st mode g_s g_d.
Proof. exact sharded_eq_direct. Qed.
Print Assumptions C04_sharded_eq_direct.

(* ... both run to completion, for all iteration orders of all hash tables *)
Theorem C04_sharded_eq_direct_total : forall max_len K P perm st thr mode variant (lreads : list lread),
  params_ok max_len K P -> perm_ok P perm -> 4 <= K -> Forall lread_ok lreads -> variant <> 1%N ->
  exists ps, pieces_of max_len K P perm (negb st) lreads = Some ps /\
    forall orders order,
      Forall2 (fun b o => Permutation o (filter (fun k => (SH P perm (negb st) k =? b)%N) (retained K st thr (map fst lreads))))
              (buckets_of ps) orders ->
      Permutation order (retained K st thr (map fst lreads)) ->
      exists gs g_s g_d, sharded max_len K P perm st thr mode variant lreads orders = Some (buckets_of ps, gs, g_s) /\
                         direct K st thr mode 0 lreads order = Some g_d /\ same_assembly K st mode g_s g_d.
Proof. exact sharded_eq_direct_total. Qed.
Print Assumptions C04_sharded_eq_direct_total.

(* the graph handed to compress_graph (BaseGraph::combine of the shard graphs) is loosely valid - the proviso of
   C09X_combine_rvalid_loose, the symmetry of the links that cross shards, HOLDS for the pipeline - and carries exactly the
   retained k-mers, each once *)
Theorem C04_sharded_combined_rvalid_loose : forall max_len K P perm st thr mode variant (lreads : list lread) orders bs gs g,
  params_ok max_len K P -> perm_ok P perm -> 4 <= K -> Forall lread_ok lreads -> Forall (@NoDup dna) orders ->
  variant <> 1%N ->
  sharded max_len K P perm st thr mode variant lreads orders = Some (bs, gs, g) ->
  rvalid_loose pay K st (combine_graphs gs) /\
  NoDup (graph_kmers K st (combine_graphs gs)) /\
  (forall x, In x (graph_kmers K st (combine_graphs gs)) <-> In x (retained K st thr (map fst lreads))).
Proof. exact sharded_combined_rvalid_loose. Qed.
Print Assumptions C04_sharded_combined_rvalid_loose.

(* the table of one shard, on Layer S *)
Theorem C04_shard_table_spec : forall max_len K P perm st thr (lreads : list lread),
  params_ok max_len K P -> perm_ok P perm -> 4 <= K -> Forall lread_ok lreads ->
  forall ps, pieces_of max_len K P perm (negb st) lreads = Some ps ->
  forall variant b order T, variant <> 1%N -> NoDup order ->
  table_of K st thr variant (shard_seqs ps b) order = Some T ->
  shard_tbl_spec K st thr lreads (SH P perm (negb st)) (variant =? 2)%N b T.
Proof. exact table_of_shard_spec. Qed.
Print Assumptions C04_shard_table_spec.

(* non-vacuity: the guards hold on the example above (three shards, threshold 2: the k-mers seen once are censored, in
   their own shard only), the orders list the shard keys, both pipelines run, the outputs differ as lists *)
Example C04_sharded_nonvacuous :
  params_ok 64%N 4 2 /\ perm_ok 2 None /\ 4 <= 4 /\ Forall lread_ok ex4_reads /\ Forall (@NoDup dna) ex4_orders /\ (2 <> 1)%N /\
  (exists ps, pieces_of 64 4 2 None true ex4_reads = Some ps /\ buckets_of ps = [1; 3; 4]%N /\
     Forall2 (fun b order => Permutation order (filter (fun k => (SH 2 None true k =? b)%N) (retained 4 false 2 (map fst ex4_reads))))
             (buckets_of ps) ex4_orders) /\
  exists bs gs g, sharded 64 4 2 None false 2 0 2 ex4_reads ex4_orders = Some (bs, gs, g) /\ length g = 2.
Proof.
  destruct C04_nonvacuous_guards as (G1 & G2 & G3).
  split; [exact G1|]. split; [exact G3|]. split; [auto|]. split; [exact G2|].
  split; [repeat constructor; cbn; intuition discriminate|]. split; [discriminate|].
  split.
  - eexists. split; [vm_compute; reflexivity|]. split; [vm_compute; reflexivity|].
    repeat (constructor; [match goal with |- Permutation ?a ?b => replace b with a by (vm_compute; reflexivity); reflexivity end|]). constructor.
  - do 3 eexists. split; vm_compute; reflexivity.
Qed.
Print Assumptions C04_sharded_nonvacuous.

(* the guard [variant <> 1] cannot be dropped: with remove_censored_exts applied per shard (valid keys = the shard's own
   keys) every extension that leads into another shard is pruned, the re-compression cannot merge across shards, and the
   result (four nodes instead of two) is not the assembly *)
Example C04_sharded_variant_guard_needed :
  exists bs gs g, sharded 64 4 2 None false 2 0 1 ex4_reads ex4_orders = Some (bs, gs, g) /\ length g = 4 /\
    ~ assembly_of 4 false 2 0 ex4_reads g.
Proof.
  do 3 eexists. split; [vm_compute; reflexivity|]. split; [reflexivity|].
  intro H. apply chk_assembly_complete in H. vm_compute in H. discriminate H.
Qed.
Print Assumptions C04_sharded_variant_guard_needed.

(* non-vacuity of the k-mer-level re-compression theorem (C09X_recompress_unitig, Properties/C09.v) on the same example:
   the combined graph of the three shards (1 + 2 + 1 nodes) satisfies [lgraph_ok] w.r.t. the loose link set, carries each
   retained k-mer once, is loosely valid but NOT valid (it has a dangling extension bit: a link into a k-mer censored in
   another shard), and spec_links is the part of the loose link set with both k-mers in the graph *)
From DBG Require Check.RecompCheck Proofs.LooseGraph Proofs.LooseValid.
Example C04_sharded_lgraph_nonvacuous :
  exists ps gs,
    pieces_of 64 4 2 None true ex4_reads = Some ps /\
    omap2 (fun b order => shard_graph 4 false 2 0 2 (shard_seqs ps b) order) (buckets_of ps) ex4_orders = Some gs /\
    map (@length _) gs = [1; 2; 1] /\
    LooseGraph.lgraph_ok 4 false (kjoin_f 0 (kmer_colour 4 false ex4_reads))
      (loose_links 4 false 2 ex4_reads (SH 2 None true) true) (combine_graphs gs) /\
    NoDup (graph_kmers 4 false (combine_graphs gs)) /\
    rvalid_loose pay 4 false (combine_graphs gs) /\ RecompCheck.rvalidb pay 4 false (combine_graphs gs) = false /\
    length (loose_links 4 false 2 ex4_reads (SH 2 None true) true) > length (spec_links 4 false 2 (map fst ex4_reads)).
Proof.
  destruct C04_nonvacuous_guards as (G1 & G2 & G3).
  assert (Hord : Forall (@NoDup dna) ex4_orders) by (repeat constructor; cbn; intuition discriminate).
  assert (Hv : (2 <> 1)%N) by discriminate.
  eexists. eexists. split; [vm_compute; reflexivity|]. split; [vm_compute; reflexivity|]. split; [reflexivity|].
  match goal with |- LooseGraph.lgraph_ok _ _ _ _ (combine_graphs ?gs) /\ _ =>
    pose proof (G_lgraph_ok 64 4 2 None false 2 0 2 ex4_reads G1 G3 (le_n 4) G2 Hv _ eq_refl ex4_orders Hord gs eq_refl) as H1;
    pose proof (G_kmers 64 4 2 None false 2 0 2 ex4_reads G1 G3 (le_n 4) G2 Hv _ eq_refl ex4_orders Hord gs eq_refl) as [H2 _];
    pose proof (combined_rvalid_loose 64 4 2 None false 2 0 2 ex4_reads G1 G3 (le_n 4) G2 Hv _ eq_refl ex4_orders Hord gs eq_refl) as H3
  end.
  split; [exact H1|]. split; [exact H2|]. split; [exact H3|]. split; [vm_compute; reflexivity|]. vm_compute. lia.
Qed.
Print Assumptions C04_sharded_lgraph_nonvacuous.

(* the guard [Forall NoDup orders] cannot be dropped (for the MODEL: the orders are oracle inputs): with one key of the
   second shard listed twice the model builds a shard table with a duplicated entry and returns a graph that is not the
   assembly *)
Example C04_sharded_order_guard_needed :
  exists orders bs gs g, map (@length _) orders = map (@length _) ex4_orders /\
    sharded 64 4 2 None false 2 0 2 ex4_reads orders = Some (bs, gs, g) /\ ~ assembly_of 4 false 2 0 ex4_reads g.
Proof.
  exists [[[0;1;1;2]; [0;1;2;2]; [2;0;1;1]; [2;2;0;1]]; [[0;3;2;2]; [0;3;2;2]]; [[3;1;1;0]]]%N. do 3 eexists.
  split; [reflexivity|]. split; [vm_compute; reflexivity|].
  intro H. apply chk_assembly_complete in H. vm_compute in H. discriminate H.
Qed.
Print Assumptions C04_sharded_order_guard_needed.
