(* C18 - Node k-mer iteration obeys the iterator contract.  Statements only. *)
From Coq Require Import NArith List Bool Arith.
From DBG Require Import Spec.Dna Packed.KmerModel Packed.DnaStringModel Packed.SliceModel Algo.Iter Algo.NodeIter
  Proofs.KmerLanes Proofs.NodeIterProofs Proofs.NodeIterAll Proofs.NodeIterClosed Spec.GraphIndex Spec.Unitig Spec.CompressSpec Algo.Compress.
Import ListNotations.
Open Scope N_scope.

(* For every shipped k-mer type, every node whose slice [s] of the shared packed string [d] denotes the bases [l]
   (container contract: get / get_kmer read [l] - this is C15/C13 for DnaStringSlice), the iterator created for the
   node reports exactly |l|-K+1 up front, and ANY sequence of next() / nth(n) calls - n below or above the
   short-skip threshold 4, inside or beyond the remaining count - succeeds (no panic) and returns exactly what the
   plain list iterator over the node's k-mers returns: k-mers in order, then None forever. *)
Theorem C18_iter_refines : forall c, In c shipped -> forall d s l,
  s_length s = length l -> (kK c <= length l)%nat -> wf_dna l ->
  (forall i, (i < length l)%nat -> sl_get d s i = Some (nth i l 0)) ->
  (forall pos, (pos + kK c <= length l)%nat ->
     exists r, sl_get_kmer c d s pos = Some r /\ wf (kK c) r /\ decode (kK c) r = kmer_at (kK c) l pos) ->
  forall calls,
  exists it outs, ni_into_iter c d s = Some it /\ ni_size_hint it = length (kmers (kK c) l) /\
    ni_run c d s it calls = Some outs /\ Forall2 (out_matches c) outs (spec_run (kmers (kK c) l) calls).
Proof. exact iter_refines. Qed.

(* CLOSED form (no container hypothesis): the container IS a DnaStringSlice (any offset, forward or reverse-complemented)
   into a DnaString satisfying the representation invariant that C14 proves after every history; its get / get_kmer
   contract is C15_get and C15_get_kmer.  The iterator reports (length - K + 1) items up front. *)
Theorem C18_iter_refines_slice : forall c, In c shipped -> forall d s, d_inv d ->
  (s_start s + s_length s <= d_len d)%nat -> (kK c <= s_length s)%nat ->
  forall calls,
  exists it outs, ni_into_iter c d s = Some it /\
    ni_size_hint it = length (kmers (kK c) (sl_view (d_abs d) s)) /\
    ni_run c d s it calls = Some outs /\
    Forall2 (out_matches c) outs (spec_run (kmers (kK c) (sl_view (d_abs d) s)) calls).
Proof. exact iter_refines_slice. Qed.
Theorem C18_iter_count : forall c, In c shipped -> forall d s, d_inv d ->
  (s_start s + s_length s <= d_len d)%nat -> (kK c <= s_length s)%nat ->
  length (kmers (kK c) (sl_view (d_abs d) s)) = (s_length s - kK c + 1)%nat.
Proof. exact iter_refines_slice_count. Qed.

(* THE WHOLE GRAPH, packed: the node sequences live in one PackedDnaStringSet (BaseGraph.sequences, C14); node i is read
   through sequences.get(i) (what get_node / get_node_kmer do) and iterated with the packed NodeKmerIter: for every node and
   every call sequence the iterator behaves like the list iterator over THAT node's k-mers - never a k-mer of a
   neighbouring node's stretch of the shared packed string. *)
Theorem C18_packed_graph_iter : forall c, In c shipped -> forall seqs : list dna,
  Forall wf_dna seqs -> Forall (fun l => N.of_nat (length l) < 2 ^ 32) seqs ->
  Forall (fun l => (kK c <= length l)%nat) seqs ->
  exists p, PackedSet.p_add_all DnaStringModel.p_new seqs = Some p /\ PackedSet.p_len p = length seqs /\
    forall i, (i < length seqs)%nat -> forall calls,
      exists sl it outs, PackedSet.p_get p i = Some sl /\ ni_into_iter c (DnaStringModel.p_seq p) sl = Some it /\
        ni_size_hint it = (length (nth i seqs []) - kK c + 1)%nat /\
        ni_run c (DnaStringModel.p_seq p) sl it calls = Some outs /\
        Forall2 (out_matches c) outs (spec_run (kmers (kK c) (nth i seqs [])) calls).
Proof. exact packed_graph_iter. Qed.

(* the list iterator: once exhausted, always None *)
Lemma C18_spec_exhausted : forall (A : Type) calls, Forall (fun o => o = @None A) (spec_run [] calls).
Proof.
  intros A calls. induction calls as [|[|n] calls IH]; cbn [spec_run]; [constructor | constructor; auto |].
  rewrite skipn_nil. constructor; auto.
Qed.

(* skip counts of any size: every count at or beyond the number of items left behaves alike - replacing each count above a
   bound B >= the number of items by B changes nothing (the correspondence driver uses B = node length + 8 to turn the
   implementation's 64-bit skip counts - 2^32 and beyond - into the model's unary numbers) *)
Theorem C18_skip_clamp : forall (A : Type) (B : nat) calls (l : list A), (length l <= B)%nat ->
  spec_run l (map (clamp_call B) calls) = spec_run l calls.
Proof. exact @spec_run_clamp. Qed.

(* ---- iterating ALL nodes -------------------------------------------------------------------------------------------
   Per node: stepping with next() exactly `count` times yields the node's k-mers in order (and None ever after). *)
Theorem C18_all_next : forall (A : Type) (l : list A) n,
  spec_run l (repeat CNext (length l) ++ repeat CNext n) = map Some l ++ repeat None n.
Proof. exact @spec_run_after_all. Qed.
(* Over the whole graph (with C01): for every table meeting C01's hypotheses, iterating the nodes compress_kmers returns, in
   order, each from its first to its last k-mer, visits - up to the strand representative when unstranded - every key of the
   table exactly once and nothing else: the visited list is a permutation of the keys and has no repetition.  Together
   with C19_mphf_perfect (a minimal perfect hash built from pairwise distinct keys gives them pairwise distinct slots) an
   index built from this iteration gives every graph k-mer its own slot. *)
Theorem C18_all_nodes_once : forall D reduce join K stranded, (1 <= K)%nat -> forall T : Compress.table D,
  tbl_ok D K stranded T -> exts_sym D stranded T ->
  exists nodes, compress_kmers D reduce join stranded T = Some nodes /\
    Permutation.Permutation (map (canon_k stranded) (iter_all_nodes D K nodes)) (keys D T) /\
    NoDup (map (canon_k stranded) (iter_all_nodes D K nodes)).
Proof. exact all_nodes_once. Qed.

(* non-vacuity: K=4 over ACGTACG: nth(5) is past the 4 k-mers -> None, then None again *)
Example C18_nonvacuous :
  spec_run (kmers 4 [0; 1; 2; 3; 0; 1; 2]) [CNext; CNth 1; CNth 5; CNext]
  = [Some [0; 1; 2; 3]; Some [2; 3; 0; 1]; None; None].
Proof. vm_compute. reflexivity. Qed.

Print Assumptions C18_iter_refines.
Print Assumptions C18_all_next.
Print Assumptions C18_all_nodes_once.
Print Assumptions C18_skip_clamp.
Print Assumptions C18_iter_refines_slice.
Print Assumptions C18_iter_count.
Print Assumptions C18_packed_graph_iter.
