(* C03 - Extensions and edges denote exactly the real adjacencies, symmetrically.  Statements only.
   Model: Algo/GraphModel.v (find_link, find_edges, get_valid_exts / fix_exts, sequence_of_path, max_path,
   remove_censored_exts, remove_censored_exts_sharded) and Algo/Beam.v (max_path_beam, expand_state).  The two node-end indexes are abstracted by their
   contract proved in C19 (lookup_exact / find_link_exact: a key-verified lookup of the first / last k-mers),
   so the model's find_link IS Spec.GraphIndex.find_link_spec.  Layer S: Spec/EdgeSpec.v.
   A graph is the list of its nodes (sequence, extension byte, payload); node id = position;
   a link (v, t, f) = target node, side of v through which it is entered, strand flip.
   A walk is a list of (node, side through which the node is entered); Left = the node is read forward. *)
From Coq Require Import NArith ZArith List Bool Arith.
From DBG Require Import Spec.Dna Spec.GraphIndex Packed.ExtsModel Algo.Compress Algo.GraphModel Spec.EdgeSpec
  Check.EdgeCheck Proofs.GraphQueryProofs Proofs.WalkProofs Proofs.PruneProofs Proofs.EdgeCheckProofs Proofs.ValidGraphProofs Proofs.C03Examples Algo.Beam Proofs.BeamProofs.
Import ListNotations.
Local Open Scope nat_scope.

(* ------------------------------------------------------------------ 1. find_link and the reported edges *)

(* find_link_spec: on a graph whose left ends are pairwise distinct and whose right ends are pairwise distinct
   (what the two indexes require), find_link(kmer, dir) returns (v, side, flip) exactly when
   - node v's terminal k-mer on the facing side (side = dir.flip()) is kmer, without flip, or
   - unstranded only, no node's facing end is kmer and v's terminal k-mer on side = dir is rc(kmer), with flip. *)
Theorem C03_find_link_spec : forall (D : Type) (K : nat) (stranded : bool) (g : graph D) x d v t f,
  NoDup (ends_of K (g_seqs D g) DLeft) -> NoDup (ends_of K (g_seqs D g) DRight) ->
  (find_link D K stranded g x d = Some (v, t, f) <->
   (f = false /\ t = dflip d /\ end_is D K g v t x) \/
   (f = true /\ stranded = false /\ t = d /\ end_is D K g v t (rc x) /\ forall w, ~ end_is D K g w (dflip d) x)).
Proof. exact find_link_iff. Qed.
(* the "only if" direction needs no hypothesis on the graph *)
Theorem C03_find_link_sound : forall (D : Type) (K : nat) (stranded : bool) (g : graph D) x d v t f,
  find_link D K stranded g x d = Some (v, t, f) ->
  (f = false /\ t = dflip d /\ end_is D K g v t x) \/
  (f = true /\ stranded = false /\ t = d /\ end_is D K g v t (rc x) /\ forall w, ~ end_is D K g w (dflip d) x).
Proof. exact find_link_some. Qed.
(* None iff no node end matches (for every graph) *)
Theorem C03_find_link_none : forall (D : Type) (K : nat) (stranded : bool) (g : graph D) x d,
  find_link D K stranded g x d = None <->
  (forall w, ~ end_is D K g w (dflip d) x) /\ (stranded = false -> forall w, ~ end_is D K g w d (rc x)).
Proof. exact find_link_none_iff. Qed.

(* edges_overlap: every edge (v, t, f) reported from side s of node u leads to an existing node v whose k-mer
   entered through t (in the direction of travel) is the k-mer left at (u, s) extended by a base recorded in
   u's extensions - hence overlaps it by K-1 bases -, and flip = (s = t) says whether the strand changes;
   stranded graphs never flip.  For every graph of well-formed nodes. *)
Theorem C03_edges_overlap : forall (D : Type) (K : nat) (stranded : bool) (g : graph D) u s l,
  wf_graph D K g -> In l (edges_of D K stranded g u s) -> edge_ok D K stranded g u s l.
Proof. exact edges_overlap. Qed.

(* edges_symmetric: in a graph_ok graph (well-formed nodes; distinct left ends, distinct right ends, and -
   unstranded - a facing end equal to the rc of an end only inside one single-k-mer node; every resolvable
   extension answered by the return extension of its target, where a palindromic single-k-mer target may store it
   on either side) whenever u reaches v through side s arriving at side t, v reaches u through t arriving at s;
   a palindromic single-k-mer node may be left / entered through either side. *)
Theorem C03_edges_symmetric : forall (D : Type) (K : nat) (stranded : bool) (g : graph D),
  graph_ok D K stranded g ->
  forall u s v t f, u < length g -> In (v, t, f) (edges_of D K stranded g u s) ->
    exists s' t' f', In (u, s', f') (edges_of D K stranded g v t') /\
      (t' = t \/ pal_single D K stranded g v) /\ (s' = s \/ pal_single D K stranded g u) /\ f' = dir_eqb t' s'.
Proof. exact edges_symmetric. Qed.

(* link to C01: the end conditions of graph_ok follow from the partition property of compress_kmers outputs
   (every k-mer, canonical when unstranded, occurs exactly once among all node windows) *)
Theorem C03_kmers_once_ends_ok : forall (D : Type) (K : nat) (stranded : bool) (g : graph D),
  wf_graph D K g -> kmers_once D K stranded g -> ends_ok D K stranded g.
Proof. exact kmers_once_ends_ok. Qed.

(* the checkers run on every implementation graph / reported edge list *)
Theorem C03_chk_graph_ok_sound : forall (D : Type) (K : nat) (stranded : bool) (g : graph D),
  chk_graph_ok D K stranded g = true -> graph_ok D K stranded g.
Proof. exact chk_graph_ok_sound. Qed.
Theorem C03_chk_valid_graph_sound : forall (D : Type) (K : nat) (stranded : bool) (g : graph D),
  chk_valid_graph D K stranded g = true -> valid_graph D K stranded g.
Proof. exact chk_valid_graph_sound. Qed.
Theorem C03_chk_edges_overlap_iff : forall (D : Type) (K : nat) (stranded : bool) (g : graph D) (el : edge_lists),
  chk_edges_overlap D K stranded g el = true <->
  forall u s l, u < length g -> In l (E_of el u s) -> edge_ok D K stranded g u s l.
Proof. exact chk_edges_overlap_iff. Qed.
Theorem C03_chk_edges_symmetric_iff : forall (D : Type) (K : nat) (stranded : bool) (g : graph D) (el : edge_lists),
  chk_edges_symmetric D K stranded g el = true <-> edges_sym_on D K stranded g (E_of el).
Proof. exact chk_edges_symmetric_iff. Qed.

(* ------------------------------------------------------------------ 2. edges = observed adjacencies *)

(* FULL statement (not proved at model level):
     forall reads K stranded thr, let g := finish (compress_kmers (prune (filter_kmers reads thr))) in
     edges_are_observed K stranded thr reads (g_seqs g) (the edge lists of g)
   i.e. the (K+1)-mers inside node sequences together with one (K+1)-mer per reported edge are, as a set
   (canonical when unstranded), exactly the (K+1)-windows of the reads whose two k-mers both occur >= thr times.
   PROVED: the checker run on every implementation graph decides exactly that Prop (sound and complete), and
   [observed_adjs] lists exactly those windows.  MISSING: the composition C05 (filter_spec) o pruning
   (remove_censored_exact) o C01 (terminal_exts, partition) at model level; it is carried by the run. *)
Theorem C03_edges_are_observed_partial : forall K stranded thr reads seqs (el : edge_lists),
  chk_edges_observed K stranded thr reads seqs el = true <->
  edges_are_observed K stranded thr reads seqs (E_list el).
Proof. exact chk_edges_observed_iff. Qed.
Theorem C03_observed_adjs_spec : forall K stranded thr reads w,
  In w (observed_adjs K stranded thr reads) <->
  exists r i, In r reads /\ i + S K <= length r /\ w = canon_s stranded (kmer_at (S K) r i) /\
              retained K stranded thr reads (kmer_at K r i) /\ retained K stranded thr reads (kmer_at K r (S i)).
Proof. exact observed_adjs_spec. Qed.

(* ------------------------------------------------------------------ 3. pruning is exact *)

(* remove_censored_exts, for EVERY table: keys, payloads, order unchanged; the new byte is < 256 and its bit
   (d, b) is set iff it was set and the target k-mer (canonical when unstranded) is a key of the table. *)
Theorem C03_remove_censored_exact : forall (D : Type) (stranded : bool) (valid : list (dna * N * D)),
  let keys := map (fun e => fst (fst e)) valid in
  length (remove_censored_exts D stranded valid) = length valid /\
  forall i k e dt, nth_error valid i = Some (k, e, dt) ->
    exists e', nth_error (remove_censored_exts D stranded valid) i = Some (k, e', dt) /\ (e' < 256)%N /\
      forall d b, (b < 4)%N ->
        (e_has_ext e' (dirb d) b = true <-> e_has_ext e (dirb d) b = true /\ In (canon_s stranded (extend k b d)) keys).
Proof. exact remove_censored_exact. Qed.
(* remove_censored_exts_sharded, for EVERY table and EVERY all_kmers list: a bit is dropped iff its target is
   censored in this shard (in all_kmers and not a key). *)
Theorem C03_remove_censored_sharded_exact : forall (D : Type) (stranded : bool) (valid : list (dna * N * D)) (all_kmers : list dna),
  let keys := map (fun e => fst (fst e)) valid in
  length (remove_censored_exts_sharded D stranded valid all_kmers) = length valid /\
  forall i k e dt, nth_error valid i = Some (k, e, dt) ->
    exists e', nth_error (remove_censored_exts_sharded D stranded valid all_kmers) i = Some (k, e', dt) /\ (e' < 256)%N /\
      forall d b, (b < 4)%N ->
        (e_has_ext e' (dirb d) b = true <->
         e_has_ext e (dirb d) b = true /\
         ~ (In (canon_s stranded (extend k b d)) all_kmers /\ ~ In (canon_s stranded (extend k b d)) keys)).
Proof. exact remove_censored_sharded_exact. Qed.
(* fix_exts (every graph, every valid set or none): never fails; sequences, payloads, order unchanged; a bit
   survives iff it was set and find_link resolves the extended terminal k-mer to a node (of the valid set). *)
Theorem C03_fix_exts_exact : forall (D : Type) (K : nat) (stranded : bool) (g : graph D) (valid : option (list nat)),
  exists g', fix_exts D K stranded g valid = Some g' /\ length g' = length g /\
    forall id n, nth_error g id = Some n ->
      exists e, nth_error g' id = Some (n_seq D n, e, n_data D n) /\ (e < 256)%N /\
        forall d b, (b < 4)%N ->
          (e_has_ext e (dirb d) b = true <->
           e_has_ext (n_exts D n) (dirb d) b = true /\ resolves D K stranded g valid (n_seq D n) d b = true).
Proof. exact fix_exts_exact. Qed.
Theorem C03_get_valid_exts_exact : forall (D : Type) (K : nat) (stranded : bool) (g : graph D) valid id n,
  nth_error g id = Some n ->
  exists e, get_valid_exts D K stranded g valid id = Some e /\ (e < 256)%N /\
    forall d b, (b < 4)%N ->
      e_has_ext e (dirb d) b = e_has_ext (n_exts D n) (dirb d) b && resolves D K stranded g valid (n_seq D n) d b.
Proof. exact get_valid_exts_exact. Qed.
(* the checkers run on the exts field the implementation leaves behind *)
Theorem C03_chk_pruned_sound : forall stranded (tbl : list (dna * N)) new, chk_pruned stranded tbl new = true ->
  length new = length tbl /\
  forall i k e e', nth_error tbl i = Some (k, e) -> nth_error new i = Some e' ->
    (e' < 256)%N /\ forall d b, (b < 4)%N ->
      (e_has_ext e' (dirb d) b = true <-> e_has_ext e (dirb d) b = true /\ In (canon_s stranded (extend k b d)) (map fst tbl)).
Proof. exact chk_pruned_sound. Qed.
Theorem C03_chk_pruned_sharded_sound : forall stranded (tbl : list (dna * N)) all_kmers new,
  chk_pruned_sharded stranded tbl all_kmers new = true ->
  length new = length tbl /\
  forall i k e e', nth_error tbl i = Some (k, e) -> nth_error new i = Some e' ->
    (e' < 256)%N /\ forall d b, (b < 4)%N ->
      (e_has_ext e' (dirb d) b = true <->
       e_has_ext e (dirb d) b = true /\
       ~ (In (canon_s stranded (extend k b d)) all_kmers /\ ~ In (canon_s stranded (extend k b d)) (map fst tbl))).
Proof. exact chk_pruned_sharded_sound. Qed.

(* ------------------------------------------------------------------ 4. walks and best paths *)

(* path_spelling: for every walk along reported edges (a palindromic single-k-mer node may be left and entered
   through either side) sequence_of_path succeeds and the k-mers of its result are the k-mers of the walked
   nodes, each read in its direction of travel, in order. *)
Theorem C03_path_spelling : forall (D : Type) (K : nat) (stranded : bool) (g : graph D) p,
  wf_graph D K g -> valid_walk D K stranded g p ->
  exists s, sequence_of_path D K g p = Some s /\ kmers K s = walk_kmers D K g p.
Proof. exact path_spelling. Qed.
(* max_path_valid: for EVERY score and solid function, on a graph_ok graph max_path does not fail and returns
   a valid walk in which no node is repeated.  (Optimality is not part of the property.) *)
Theorem C03_max_path_valid : forall (D : Type) (K : nat) (stranded : bool) (score : D -> Z) (solid : D -> bool) (g : graph D),
  graph_ok D K stranded g ->
  exists p, max_path D K stranded score solid g = Some p /\ valid_walk D K stranded g p /\ NoDup (map fst p).
Proof. exact max_path_valid. Qed.
Theorem C03_chk_walk_iff : forall (D : Type) (K : nat) (stranded : bool) (g : graph D) p sq,
  chk_walk D K stranded g p sq = true <-> valid_walk D K stranded g p /\ kmers K sq = walk_kmers D K g p.
Proof. exact chk_walk_iff. Qed.
Theorem C03_chk_max_path_iff : forall (D : Type) (K : nat) (stranded : bool) (g : graph D) p sq,
  chk_max_path D K stranded g p sq = true <->
  (valid_walk D K stranded g p /\ kmers K sq = walk_kmers D K g p) /\ NoDup (map fst p).
Proof. exact chk_max_path_iff. Qed.

(* The second best-path query, max_path_beam (beam search from the terminal nodes; model Algo/Beam.v, [false] = the
   repaired code, fix F10).  beam_valid: for EVERY graph (no hypothesis at all), beam width and score function,
   whatever path it returns is a walk along reported edges in which no node is repeated - so by path_spelling its
   sequence spells exactly the walked nodes' k-mers.  beam_total: with beam >= 1, on a graph whose extension bits
   lead to reported edges (every valid_graph) it does not fail: the state list never becomes empty (states[0] exists)
   and S (S (length g)) rounds suffice.  (beam = 0, or a terminal node whose only extension bits dangle, makes the real
   code index an empty vector: modelled as failure, excluded by the guards.) *)
Theorem C03_beam_valid : forall (D : Type) (K : nat) (stranded : bool) (score : D -> Z) (g : graph D) beam p,
  max_path_beam D K stranded score false g beam = Some p -> valid_walk D K stranded g p /\ NoDup (map fst p).
Proof. exact beam_valid. Qed.
Theorem C03_beam_total : forall (D : Type) (K : nat) (stranded : bool) (score : D -> Z) (g : graph D) beam,
  0 < beam -> valid_graph D K stranded g -> exists p, max_path_beam D K stranded score false g beam = Some p.
Proof. intros D K st sc g beam B [_ R]. exact (beam_total D K st sc g beam B (resolvable_terminal D K st g R)). Qed.
(* the code BEFORE fix F10 appended the node it met again: a best path with a repeated node (known finding F10,
   repaired in /repo; the witness is replayed against the implementation by the harness corpus) *)
Theorem C03_beam_repeats_refuted :
  exists p, max_path_beam Z 3 true (fun d => d) true beam_ex_g 1 = Some p /\ ~ NoDup (map fst p).
Proof. exact beam_repeats_refuted. Qed.
Example C03_nonvacuous_beam :
  max_path_beam Z 3 true (fun d => d) false beam_ex_g 1 = Some [(1, DLeft); (0, DLeft)] /\
  max_path_beam Z 3 true (fun d => d) false beam_ex_g 3 = Some [(1, DLeft); (0, DLeft)] /\
  terminal_bits_resolve Z 3 true beam_ex_g.
Proof. exact beam_nonvacuous. Qed.

(* ------------------------------------------------------------------ non-vacuity *)
(* an unstranded K=4 graph with two palindromic single-k-mer nodes satisfies valid_graph (hence graph_ok) *)
Example C03_nonvacuous_graph : valid_graph ex_pay 4 false ex_g /\ pal_single ex_pay 4 false ex_g 3.
Proof. exact (conj ex_valid (proj1 ex_pal)). Qed.
(* node 0 reaches the palindromic node 3 arriving at its Right side; node 3 reaches node 0 through its Left side *)
Example C03_nonvacuous_edges :
  map (fun u => (edges_of ex_pay 4 false ex_g u DLeft, edges_of ex_pay 4 false ex_g u DRight)) [0; 1; 2; 3] =
  [ ([(3, DRight, false)], [(2, DLeft, false)]);
    ([], [(3, DLeft, false)]);
    ([], [(0, DRight, true)]);
    ([(0, DLeft, true)], [(1, DRight, true)]) ].
Proof. exact ex_edges. Qed.
Example C03_nonvacuous_walk :
  valid_walk ex_pay 4 false ex_g [(1, DLeft); (3, DLeft); (0, DLeft)] /\
  sequence_of_path ex_pay 4 ex_g [(1, DLeft); (3, DLeft); (0, DLeft)] = Some [0;0;0;0;2;2;1;0;1;2;3;0;0;0;3]%N.
Proof. exact ex_walk. Qed.
Example C03_nonvacuous_max_path :
  max_path ex_pay 4 false fst snd ex_g = Some [(1, DLeft); (3, DLeft)] /\
  sequence_of_path ex_pay 4 ex_g [(1, DLeft); (3, DLeft)] = Some [0;0;0;0;2;2;1;0;1;2;3]%N.
Proof. exact ex_max_path. Qed.
Example C03_nonvacuous_prune :
  remove_censored_exts unit true [([0;0;0;1]%N, 64%N, tt); ([0;0;1;2]%N, 65%N, tt)] =
  [([0;0;0;1]%N, 64%N, tt); ([0;0;1;2]%N, 1%N, tt)].
Proof. exact ex_prune. Qed.

Print Assumptions C03_find_link_spec.
Print Assumptions C03_find_link_sound.
Print Assumptions C03_find_link_none.
Print Assumptions C03_edges_overlap.
Print Assumptions C03_edges_symmetric.
Print Assumptions C03_kmers_once_ends_ok.
Print Assumptions C03_chk_graph_ok_sound.
Print Assumptions C03_chk_valid_graph_sound.
Print Assumptions C03_chk_edges_overlap_iff.
Print Assumptions C03_chk_edges_symmetric_iff.
Print Assumptions C03_edges_are_observed_partial.
Print Assumptions C03_observed_adjs_spec.
Print Assumptions C03_remove_censored_exact.
Print Assumptions C03_remove_censored_sharded_exact.
Print Assumptions C03_fix_exts_exact.
Print Assumptions C03_get_valid_exts_exact.
Print Assumptions C03_chk_pruned_sound.
Print Assumptions C03_chk_pruned_sharded_sound.
Print Assumptions C03_path_spelling.
Print Assumptions C03_max_path_valid.
Print Assumptions C03_chk_walk_iff.
Print Assumptions C03_chk_max_path_iff.
Print Assumptions C03_beam_valid.
Print Assumptions C03_beam_total.
Print Assumptions C03_beam_repeats_refuted.
Print Assumptions C03_nonvacuous_beam.
Print Assumptions C03_nonvacuous_graph.
Print Assumptions C03_nonvacuous_edges.
Print Assumptions C03_nonvacuous_walk.
Print Assumptions C03_nonvacuous_max_path.
Print Assumptions C03_nonvacuous_prune.

(* ==== composition with C01 (work package compose1) ============================================================= *)
(* compress_kmers outputs satisfy graph_ok.  For EVERY table meeting C01's hypotheses [tbl_ok], [exts_sym] and
   [exts_sym_pal] the graph returned by compress_kmers is graph_ok - so edges_symmetric, max_path_valid and
   path_spelling above apply to every graph the construction produces, not only to those accepted by chk_graph_ok.
   [exts_sym_pal] is the one thing C01's [exts_sym] leaves open: C01 exempts PALINDROMIC targets altogether (the code
   never enters them); graph_ok asks that a palindromic single-k-mer node stores the return extension on one of its
   two sides, so this is asked of the table: an extension (d, b) of key x leading to a palindromic key y is answered
   at y by the base x loses on side d.flip(), or by its complement on side d.  Tables with extensions derived from set
   membership satisfy all three hypotheses (C03_no_exts_graph_ok); for filter_kmers + remove_censored_exts tables they
   are decidable (exts_symb, exts_sym_palb) but not proved here.  [exts_closed] is NOT needed (graph_ok's symmetry
   clause speaks about resolvable extensions only).
   Proof: wf_graph from C01's node structure; ends_ok from C01's partition via C03_kmers_once_ends_ok; the return
   extensions from C01's terminal_ok (a node's extension byte = the extensions of its two end k-mers in the node's
   frame), the table symmetry transported to the frames of the two k-mer occurrences, and - for a palindromic
   target - the fact that a palindromic key is never merged (C01's step relation refuses it), so it is a
   single-k-mer node whose two terminal k-mers coincide. *)
From DBG Require Spec.CompressSpec Check.CompressHyp Proofs.CompressHypProofs Proofs.CompressGraphOk.

Theorem C03_compress_graph_ok : forall (D : Type) (reduce : D -> D -> D) (join : D -> D -> bool) (K : nat) (stranded : bool),
  1 <= K -> forall T : Compress.table D,
  CompressSpec.tbl_ok D K stranded T -> CompressSpec.exts_sym D stranded T -> CompressGraphOk.exts_sym_pal D stranded T ->
  exists nodes, Compress.compress_kmers D reduce join stranded T = Some nodes /\ graph_ok D K stranded nodes.
Proof. exact CompressGraphOk.compress_graph_ok. Qed.
Print Assumptions C03_compress_graph_ok.

(* the third entry point (extensions derived from set membership): no hypothesis beyond distinct, well-formed,
   canonical k-mers *)
Theorem C03_no_exts_graph_ok : forall (D : Type) (K : nat) (stranded : bool), 1 <= K -> forall kds : list (dna * D),
  NoDup (map fst kds) ->
  (forall k, In k (map fst kds) -> length k = K /\ wf_dna k /\ (stranded = false -> canon k = k)) ->
  forall reduce join,
  exists nodes, Compress.compress_kmers D reduce join stranded (DeriveExts.derived_table D stranded kds) = Some nodes /\
                graph_ok D K stranded nodes.
Proof. exact CompressGraphOk.no_exts_graph_ok. Qed.
Print Assumptions C03_no_exts_graph_ok.

(* the additional hypothesis is decidable *)
Theorem C03_exts_sym_pal_decidable : forall (D : Type) (stranded : bool) (T : Compress.table D),
  CompressGraphOk.exts_sym_palb D stranded T = true -> CompressGraphOk.exts_sym_pal D stranded T.
Proof. exact CompressGraphOk.exts_sym_palb_sound. Qed.
Print Assumptions C03_exts_sym_pal_decidable.

(* non-vacuity: K = 4, unstranded, the canonical 4-mers of ACGTTGCAACTCCGA (two palindromes, ACGT and TGCA, both
   targets of extensions) with extensions derived from membership *)
Definition C03_ex_keys : list dna :=
  nodup (list_eq_dec N.eq_dec) (map canon (kmers 4 [0;1;2;3;3;2;1;0;0;1;3;1;1;2;0]%N)).
Definition C03_ex_table : Compress.table unit := map (fun k => (k, Compress.derive_exts false C03_ex_keys k, tt)) C03_ex_keys.
Example C03_nonvacuous_compress_graph_ok :
  CompressSpec.tbl_ok unit 4 false C03_ex_table /\ CompressSpec.exts_sym unit false C03_ex_table /\
  CompressGraphOk.exts_sym_pal unit false C03_ex_table /\
  map fst (map fst (match Compress.compress_kmers unit (fun _ _ => tt) (fun _ _ => true) false C03_ex_table with
                    | Some nodes => nodes | None => [] end)) =
    [[0;1;2;3]; [0;0;1;2]; [3;2;1;0]; [2;1;0;0;1]; [0;0;1;3;1;1;2;0]]%N.
Proof.
  split; [apply CompressHypProofs.tbl_okb_sound; vm_compute; reflexivity|].
  split; [apply CompressHypProofs.exts_symb_sound; vm_compute; reflexivity|].
  split; [apply CompressGraphOk.exts_sym_palb_sound; vm_compute; reflexivity | vm_compute; reflexivity].
Qed.
Print Assumptions C03_nonvacuous_compress_graph_ok.

(* ==== edges = observed adjacencies, for the DIRECT pipeline model (work package e2e) ============================= *)
(* C03_edges_are_observed_direct: for the direct pipeline model (filter_kmers with CountFilterSet on the whole reads ->
   sort -> remove_censored_exts when thr > 1 -> any duplicate-free iteration order of the table -> compress_kmers), K >= 4,
   reads over {A,C,G,T}: the k-mers of the graph are exactly the retained k-mers (each once) and the adjacencies the graph
   denotes - every (K+1)-window of every node sequence plus, for every node end and every base of its extension set, the
   (K+1)-mer formed by the end k-mer and that base, canonical when unstranded ([graph_links], Check/PipelineCheck.v) - are,
   as a set, exactly the (K+1)-windows of the reads whose two k-mers both occur >= thr times ([observed_adjs] of
   Spec/EdgeSpec.v = [spec_links] of Check/PipelineCheck.v).  No checker is involved: this is the composition C05
   (filter_spec) o pruning (remove_censored_exact) o C01 (partition, steps, terminal_exts) at model level that
   C03_edges_are_observed_partial left to the run.
   Here the adjacency set is stated on the extension bytes of the node ends; the reading through find_edges / find_link
   (the FULL statement above) is C03_edges_are_observed_direct_full below. *)
From DBG Require Algo.Pipeline Check.PipelineCheck Proofs.E2eDirect Proofs.E2eCorollaries.

Theorem C03_edges_are_observed_direct : forall K st thr mode (lreads : list Pipeline.lread) order g,
  4 <= K -> Forall (fun r => wf_dna (fst r)) lreads -> NoDup order ->
  Pipeline.direct K st thr mode 0 lreads order = Some g ->
  Permutation.Permutation (PipelineCheck.graph_kmers K st g) (PipelineCheck.retained K st thr (map fst lreads)) /\
  (forall w, In w (PipelineCheck.graph_links K st g) <-> In w (PipelineCheck.spec_links K st thr (map fst lreads))) /\
  (forall w, In w (PipelineCheck.graph_links K st g) <-> In w (observed_adjs K st (N.to_nat thr) (map fst lreads))).
Proof. exact E2eCorollaries.edges_are_observed_direct_all. Qed.
Print Assumptions C03_edges_are_observed_direct.

(* the two Layer-S adjacency specifications coincide *)
Theorem C03_observed_adjs_spec_links : forall K st thr reads,
  observed_adjs K st (N.to_nat thr) reads = PipelineCheck.spec_links K st thr reads.
Proof. exact E2eCorollaries.observed_adjs_spec_links. Qed.
Print Assumptions C03_observed_adjs_spec_links.

(* the table handed to the compressor meets C01's and C03's hypotheses (announced above as "decidable but not proved
   here"): filter_kmers + remove_censored_exts tables are tbl_ok, exts_sym and exts_sym_pal *)
Theorem C03_direct_table_hyps : forall K st thr (lreads : list Pipeline.lread) order T,
  4 <= K -> Forall (fun r => wf_dna (fst r)) lreads -> NoDup order ->
  Pipeline.table_of K st thr (if (1 <? thr)%N then 1%N else 0%N) (Pipeline.whole_reads lreads) order = Some T ->
  CompressSpec.tbl_ok GraphCheck.pay K st T /\ CompressSpec.exts_sym GraphCheck.pay st T /\
  CompressGraphOk.exts_sym_pal GraphCheck.pay st T /\ CompressSpec.exts_closed GraphCheck.pay st T.
Proof. exact E2eCorollaries.direct_table_hyps. Qed.
Print Assumptions C03_direct_table_hyps.

(* non-vacuity: K = 4, unstranded, threshold 2 (pruning active): ACGGTCCATG twice and CATGGTA once; the graph has the
   7 retained k-mers and the 6 observed adjacencies between them (CATG is a palindrome) *)
Definition C03_ex_reads : list Pipeline.lread := [([0;1;2;2;3;1;1;0;3;2], 0); ([0;1;2;2;3;1;1;0;3;2], 1); ([1;0;3;2;2;3;0], 1)]%N.
Definition C03_ex_order : list dna := Eval vm_compute in rev (PipelineCheck.retained 4 false 2 (map fst C03_ex_reads)).
Example C03_nonvacuous_direct :
  Forall (fun r => wf_dna (fst r)) C03_ex_reads /\ NoDup C03_ex_order /\
  exists g, Pipeline.direct 4 false 2 0 0 C03_ex_reads C03_ex_order = Some g /\
    length (PipelineCheck.graph_kmers 4 false g) = 7 /\
    length (nodup (list_eq_dec N.eq_dec) (observed_adjs 4 false 2 (map fst C03_ex_reads))) = 6 /\
    existsb is_palindrome (PipelineCheck.graph_kmers 4 false g) = true.
Proof.
  split; [repeat constructor; cbv; auto|]. split.
  - replace C03_ex_order with (rev (PipelineCheck.retained 4 false 2 (map fst C03_ex_reads))) by (vm_compute; reflexivity).
    eapply Permutation.Permutation_NoDup; [apply Permutation.Permutation_rev | apply PipelineCheckProofs.retained_nodup].
  - eexists. split; [vm_compute; reflexivity|]. repeat split; vm_compute; reflexivity.
Qed.
Print Assumptions C03_nonvacuous_direct.

(* C03_compress_valid_graph: for EVERY table meeting C01's hypotheses [tbl_ok], [exts_sym], C03's [exts_sym_pal] and
   [exts_closed] (every recorded extension leads to a key - what remove_censored_exts establishes), symmetric join: the
   graph compress_kmers builds is a [valid_graph]: graph_ok AND every extension of every node end resolves through
   find_link to a node end ([exts_resolvable]).  This is the validity hypothesis of C09's compress_graph.
   Proof (Proofs/CompressValid.v): the target k-mer of an end extension lies in some node; were it not at that node's
   facing end, its step to the inner neighbour would be a merge whose sole extension is the return extension (table
   symmetry), so the neighbour would be the source end k-mer itself - which ends its own node. *)
From DBG Require Proofs.CompressValid Proofs.E2eEdges.
Theorem C03_compress_valid_graph : forall (D : Type) (reduce : D -> D -> D) (join : D -> D -> bool) (K : nat) (stranded : bool),
  1 <= K -> (forall a b, join a b = join b a) -> forall T : Compress.table D,
  CompressSpec.tbl_ok D K stranded T -> CompressSpec.exts_sym D stranded T -> CompressGraphOk.exts_sym_pal D stranded T ->
  CompressSpec.exts_closed D stranded T ->
  exists nodes, Compress.compress_kmers D reduce join stranded T = Some nodes /\ valid_graph D K stranded nodes.
Proof. exact CompressValid.compress_valid_graph. Qed.
Print Assumptions C03_compress_valid_graph.

Theorem C03_direct_valid_graph : forall K st thr mode (lreads : list Pipeline.lread) order g,
  4 <= K -> Forall (fun r => wf_dna (fst r)) lreads -> NoDup order ->
  Pipeline.direct K st thr mode 0 lreads order = Some g -> valid_graph GraphCheck.pay K st g.
Proof. exact E2eEdges.direct_valid_graph. Qed.
Print Assumptions C03_direct_valid_graph.

(* C03_edges_are_observed, FULL, for the direct pipeline model: with the edge lists find_edges reports for every node and
   side ([model_el]: (edges_of g u Left, edges_of g u Right) per node u), the (K+1)-mers inside node sequences together with
   one (K+1)-mer per reported edge ([edge_mer]: the source end k-mer and the first base of the target, on the strand of the
   source) are, as a set of canonical (K+1)-mers, exactly the (K+1)-windows of the reads whose two k-mers both occur >= thr
   times.  (thr is a number N in the pipeline model and a nat in Spec/EdgeSpec.v.) *)
Theorem C03_edges_are_observed_direct_full : forall K st thr mode (lreads : list Pipeline.lread) order g,
  4 <= K -> Forall (fun r => wf_dna (fst r)) lreads -> NoDup order ->
  Pipeline.direct K st thr mode 0 lreads order = Some g ->
  edges_are_observed K st (N.to_nat thr) (map fst lreads) (g_seqs GraphCheck.pay g) (E_list (E2eEdges.model_el K st g)).
Proof. exact E2eEdges.edges_are_observed_direct_full. Qed.
Print Assumptions C03_edges_are_observed_direct_full.

(* in a graph of well-formed nodes whose end extensions all resolve, the adjacencies read through find_edges are those
   read off the extension bytes *)
Theorem C03_adjs_links : forall K st (g : list GraphCheck.node_t), wf_graph GraphCheck.pay K g -> exts_resolvable GraphCheck.pay K st g ->
  forall w, In w (graph_adjs K st (g_seqs GraphCheck.pay g) (E_list (E2eEdges.model_el K st g))) <-> In w (PipelineCheck.graph_links K st g).
Proof. exact E2eEdges.adjs_links. Qed.
Print Assumptions C03_adjs_links.

(* non-vacuity: on the example above the checker of C03_edges_are_observed_partial accepts the model's own edge lists *)
Example C03_nonvacuous_direct_full :
  exists g, Pipeline.direct 4 false 2 0 0 C03_ex_reads C03_ex_order = Some g /\
    chk_valid_graph GraphCheck.pay 4 false g = true /\
    chk_edges_observed 4 false 2 (map fst C03_ex_reads) (g_seqs GraphCheck.pay g) (E2eEdges.model_el 4 false g) = true /\
    map (@length _) (map (fun p => fst p ++ snd p) (E2eEdges.model_el 4 false g)) = [1; 2].
Proof. eexists. split; [vm_compute; reflexivity|]. repeat split; vm_compute; reflexivity. Qed.
Print Assumptions C03_nonvacuous_direct_full.

(* ==== the SHARDED pipeline (work package e2e-sharded) ============================================================= *)
(* C03_edges_are_observed for the sharded pipeline model (msp -> per-shard filter / prune / compress_kmers -> combine ->
   compress_graph), FULL, no checker: the graph holds exactly the retained k-mers, and the adjacencies it denotes - read off
   the extension bytes ([graph_links]) as well as through find_edges ([graph_adjs] with the model's own edge lists; every
   extension of the result resolves: C09_no_dangling_exts) - are exactly the (K+1)-windows of the reads whose two k-mers
   are retained.  Guards: those of C04_sharded_assembly. *)
From DBG Require Proofs.MspProofs Proofs.ShardProofs Proofs.E2eShardedCorollaries.
Theorem C03_edges_are_observed_sharded : forall max_len K P perm st thr mode variant (lreads : list Pipeline.lread) orders bs gs g,
  ShardProofs.params_ok max_len K P -> MspProofs.perm_ok P perm -> 4 <= K -> Forall ShardProofs.lread_ok lreads ->
  Forall (@NoDup dna) orders -> variant <> 1%N ->
  Pipeline.sharded max_len K P perm st thr mode variant lreads orders = Some (bs, gs, g) ->
  Permutation.Permutation (PipelineCheck.graph_kmers K st g) (PipelineCheck.retained K st thr (map fst lreads)) /\
  (forall w, In w (PipelineCheck.graph_links K st g) <-> In w (PipelineCheck.spec_links K st thr (map fst lreads))) /\
  (forall w, In w (PipelineCheck.graph_links K st g) <-> In w (observed_adjs K st (N.to_nat thr) (map fst lreads))).
Proof. exact E2eShardedCorollaries.edges_are_observed_sharded. Qed.
Print Assumptions C03_edges_are_observed_sharded.
Theorem C03_edges_are_observed_sharded_full : forall max_len K P perm st thr mode variant (lreads : list Pipeline.lread) orders bs gs g,
  ShardProofs.params_ok max_len K P -> MspProofs.perm_ok P perm -> 4 <= K -> Forall ShardProofs.lread_ok lreads ->
  Forall (@NoDup dna) orders -> variant <> 1%N ->
  Pipeline.sharded max_len K P perm st thr mode variant lreads orders = Some (bs, gs, g) ->
  edges_are_observed K st (N.to_nat thr) (map fst lreads) (g_seqs GraphCheck.pay g) (E_list (E2eEdges.model_el K st g)).
Proof. exact E2eShardedCorollaries.edges_are_observed_sharded_full. Qed.
Print Assumptions C03_edges_are_observed_sharded_full.
