(* C08 - Shard assignment is a pure, strand-symmetric function of the k-mer.  Statements only.
   [msp_score p perm rc] is the score closure of msp_sequence (permutation rank, min over both strands in rc
   mode; perm = None is the default table 0..4^p); [shard_of score p x] (Spec/ScanSpec.v) is the canonical
   rank of the first score-minimal p-mer of the k-mer x: a function of x alone.  Constants msp_* are pinned from
   the source (currently msp_assert_shift = 32, msp_len_bits = 16, msp_bucket_bits = 32). *)
From Coq Require Import NArith List Bool Arith.
From DBG Require Import Gen.SourceConsts Spec.Dna Spec.ScanSpec Algo.Scan Algo.Msp Check.ScanCheck Proofs.ScanProofs Proofs.MspProofs Proofs.ScanCheckProofs Packed.KmerModel Proofs.ScoreBridge.
Import ListNotations.
Open Scope nat_scope.

(* Every emitted piece is the exact substring of the read at its tiling position (positions as in C07: first
   at 0, consecutive pieces overlap by k-1, last ends at the read end, every k-mer start in exactly one piece),
   and its extensions are exactly the flanking bases, none at a read end. *)
Theorem C08_piece_exact : forall max_len sq k p perm rcmode,
  1 <= p -> p <= k -> k <= length sq -> (N.of_nat (length sq) < 2 ^ msp_assert_shift)%N -> (N.of_nat (2 * k - p) < 2 ^ msp_len_bits)%N ->
  (N.of_nat (2 * k - p) <= max_len)%N -> wf_dna sq ->
  exists ivs, msp_sequence max_len sq k p perm rcmode = Some (map (msp_piece sq) ivs) /\
    scan_ok (msp_score p perm rcmode) sq k p (map iv_nat ivs) /\ covered_once sq k (map iv_nat ivs) /\
    forall x, In x ivs ->
      let st := s_start (iv_nat x) in
      let ln := s_len (iv_nat x) in
      st + ln <= length sq /\
      msp_piece sq x = ((bucket_of (iv_minimizer x) mod 2 ^ msp_bucket_bits)%N, flank_exts sq st ln, sub st ln sq) /\
      length (sub st ln sq) = ln.
Proof. exact piece_exact. Qed.

(* With an injective permutation table of 4^p entries (or the default one), the bucket of the piece covering
   ANY occurrence i of a k-mer, in any read, equals shard_of (that k-mer), narrowed as u32. *)
Theorem C08_bucket_pure : forall max_len sq k p perm rcmode,
  1 <= p -> p <= k -> k <= length sq -> (N.of_nat (length sq) < 2 ^ msp_assert_shift)%N -> (N.of_nat (2 * k - p) < 2 ^ msp_len_bits)%N ->
  (N.of_nat (2 * k - p) <= max_len)%N -> wf_dna sq -> perm_ok p perm ->
  exists ivs, msp_sequence max_len sq k p perm rcmode = Some (map (msp_piece sq) ivs) /\
    covered_once sq k (map iv_nat ivs) /\
    forall x, In x ivs -> forall i, kmer_in k (iv_nat x) i ->
      fst (fst (msp_piece sq x)) = (shard_of (msp_score p perm rcmode) p (kmer_at k sq i) mod 2 ^ msp_bucket_bits)%N.
Proof. exact bucket_pure. Qed.

(* In reverse-complement mode the shard of a k-mer and of its reverse complement coincide. *)
Theorem C08_bucket_rc : forall p perm rcmode, perm_ok p perm -> forall x,
  rcmode = true -> 1 <= p -> p <= length x -> wf_dna x ->
  shard_of (msp_score p perm rcmode) p (rc x) = shard_of (msp_score p perm rcmode) p x.
Proof. exact bucket_rc. Qed.

(* The boolean checker run by the correspondence driver on the IMPLEMENTATION's output over a whole read set is
   sound: acceptance implies that every read's pieces are exact substrings tiling the read with the true
   flanking extensions, and that all occurrences of a k-mer (of either orientation in rc mode) anywhere in the
   set carry one bucket id ([msp_out_ok], Spec/ScanSpec.v). *)
Theorem C08_check_msp_sound : forall k rcmode l, check_msp k rcmode l = true -> msp_out_ok k rcmode l.
Proof. exact check_msp_sound. Qed.

(* the piece half alone (linear): what is run on reads of tens of thousands of bases *)
Theorem C08_check_tiling_sound : forall k rcmode l, check_tiling k rcmode l = true ->
  1 <= k /\ Forall (read_ok k) l.
Proof.
  intros k rc l H. assert (Hk : 1 <= k) by (unfold check_tiling in H; apply andb_prop in H as [H1 _]; now apply Nat.leb_le in H1).
  exact (check_tiling_sound k rc Hk l H).
Qed.

(* reads shorter than k give no pieces; a container that cannot hold 2k-p bases is refused *)
Example C08_short_read : msp_sequence 64 [0;1;2]%N 5 2 None true = Some [].
Proof. reflexivity. Qed.
Example C08_small_container : msp_sequence 7 [0;1;2;3;3;2;1;0]%N 5 2 None true = None.
Proof. reflexivity. Qed.

(* ACGTTGCAACCA, k = 5, p = 2, default permutation, rc mode: pieces, extensions and buckets *)
Example C08_nonvacuous :
  msp_sequence 64 [0;1;2;3;3;2;1;0;0;1;1;0]%N 5 2 None true =
  Some [(0, 16, [0;1;2;3;3;2;1;0]); (0, 8, [3;2;1;0;0;1;1;0])]%N.
Proof. vm_compute. reflexivity. Qed.
(* a palindromic 4-mer and a k-mer with its reverse complement land in the same shard *)
Example C08_nonvacuous_rc :
  shard_of (msp_score 2 None true) 2 [0;1;2;3;3]%N = shard_of (msp_score 2 None true) 2 (rc [0;1;2;3;3]%N).
Proof. vm_compute. reflexivity. Qed.

(* Packed bridge: the score closure of msp_sequence and the bucket `min_rc().to_u64()`, computed on the PACKED p-mer with the
   packed operations (to_u64, rc, min_rc: tied to the code under C10), equal msp_score / bucket_of of the decoded p-mer, for
   every shipped configuration of width <= 32, every well-formed storage value and every table. *)
Theorem C08_packed_msp_score : forall c perm rcmode s, In c shipped -> wf (kK c) s -> kK c <= 32 ->
  packed_msp_score c perm rcmode s = Some (msp_score (kK c) perm rcmode (decode (kK c) s)).
Proof. exact packed_msp_score_spec. Qed.
Theorem C08_packed_bucket : forall c s, In c shipped -> wf (kK c) s -> kK c <= 32 ->
  packed_bucket c s = Some (bucket_of (decode (kK c) s)).
Proof. exact packed_bucket_spec. Qed.
Example C08_packed_bridge_nonvacuous :
  packed_msp_score (mkc 16 8) None true 27%N = Some 27%N.
Proof. vm_compute. reflexivity. Qed.
Print Assumptions C08_packed_msp_score.
Print Assumptions C08_packed_bucket.

Print Assumptions C08_piece_exact.
Print Assumptions C08_bucket_pure.
Print Assumptions C08_bucket_rc.
Print Assumptions C08_check_msp_sound.
Print Assumptions C08_check_tiling_sound.
