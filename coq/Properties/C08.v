(* C08 - Shard assignment is a pure, strand-symmetric function of the k-mer.  Statements only. *)
From Coq Require Import NArith List Bool Arith.
From DBG Require Import Spec.Dna Spec.ScanSpec Algo.Scan Algo.Msp Check.ScanCheck Proofs.ScanProofs Proofs.ScanSweeps.
Import ListNotations.
Open Scope nat_scope.

(* ACGTTGCAACCA, k = 5, p = 2, default permutation, rc mode: pieces, extensions and buckets *)
Example C08_nonvacuous :
  msp_sequence 64 [0;1;2;3;3;2;1;0;0;1;1;0]%N 5 2 None true =
  Some [(0, 16, [0;1;2;3;3;2;1;0]); (0, 8, [3;2;1;0;0;1;1;0])]%N.
Proof. vm_compute. reflexivity. Qed.

Print Assumptions C08_nonvacuous.
