(* C17 - Fixed-size DNA strings (Lmer<[u64; n]>, src/vmer.rs) behave as strings.  Statements only.
   Model: Packed/LmerModel.v (an Lmer is its word list; capacity = number of words, 1..6 as shipped).
   [l_inv x]: capacity 1..6, words are u64, the length byte (low 8 bits of the last word) holds a length
   <= max_len = 32*n - 4, every lane between the sequence and the length byte is zero.
   [l_abs x]: the first [len] two-bit lanes of the words = the base sequence (its length IS the stored length). *)
From Coq Require Import NArith List Bool Arith.
From DBG Require Import Spec.Dna Packed.KmerModel Packed.Blocks Packed.LmerModel Algo.Iter Algo.SeqHist
  Proofs.LmerProofs Proofs.IterProofs.
Import ListNotations.
Open Scope N_scope.

(* the Prop invariant is the executable one the correspondence run evaluates on the implementation's words *)
Theorem C17_invb_iff : forall x, (1 <= l_size x <= 6)%nat -> (l_invb x = true <-> l_inv x).
Proof. exact l_invb_iff. Qed.

(* new(len): reports len, all A's *)
Theorem C17_new : forall n len, (1 <= n <= 6)%nat -> (len <= l_max_len n)%nat ->
  exists x, l_new n len = Some x /\ l_size x = n /\ l_inv x /\ l_len x = Some len /\ l_abs x = repeat 0 len.
Proof. exact l_new_spec. Qed.
Theorem C17_max_len : forall n, l_max_len n = (32 * n - 4)%nat.
Proof. exact l_max_len_eq. Qed.

(* reads *)
Theorem C17_len : forall x len, l_inv x -> l_len x = Some len -> length (l_abs x) = len.
Proof. exact l_abs_length. Qed.
Theorem C17_get : forall x len pos, l_inv x -> l_len x = Some len -> (pos < len)%nat ->
  l_get x pos = Some (nth pos (l_abs x) 0).
Proof. exact l_get_spec. Qed.
Theorem C17_to_bytes : forall x, l_inv x -> l_to_bytes x = Some (l_abs x).
Proof. exact l_to_bytes_spec. Qed.

(* single-base write: exactly the addressed base changes; invariant (hence the stored length, the padding and every
   other base) kept *)
Theorem C17_set_mut : forall x len pos v, l_inv x -> l_len x = Some len -> (pos < len)%nat -> v < 4 ->
  exists x', l_set_mut x pos v = Some x' /\ l_size x' = l_size x /\ l_inv x' /\ l_len x' = Some len /\
             l_abs x' = upd pos (l_abs x) v.
Proof. exact l_set_mut_spec. Qed.

(* packed multi-base write of n <= 32 bases (the top n two-bit digits of the u64 payload, garbage below ignored):
   exactly the n addressed bases change - also when the run crosses a word boundary or lies in the word that holds
   the length byte *)
Theorem C17_set_slice_mut : forall x len pos n value, l_inv x -> l_len x = Some len ->
  (1 <= n <= 32)%nat -> (pos + n <= len)%nat -> value < two64 ->
  exists x', l_set_slice_mut x pos n value = Some x' /\ l_size x' = l_size x /\ l_inv x' /\ l_len x' = Some len /\
             l_abs x' = splice pos (firstn n (digits4 32 value)) (l_abs x).
Proof. exact l_set_slice_mut_digits. Qed.

(* reverse complement *)
Theorem C17_rc : forall x len, l_inv x -> l_len x = Some len ->
  exists r, l_rc x = Some r /\ l_size r = l_size x /\ l_inv r /\ l_len r = Some len /\ l_abs r = rc (l_abs x).
Proof. exact l_rc_spec. Qed.

(* Vmer::from_slice *)
Theorem C17_from_slice : forall n l, (1 <= n <= 6)%nat -> wf_dna l -> (length l <= l_max_len n)%nat ->
  exists x, l_from_slice n l = Some x /\ l_size x = n /\ l_inv x /\ l_len x = Some (length l) /\ l_abs x = l.
Proof. exact l_from_slice_spec. Qed.

(* every in-range history of set / packed set / rc from new(len): no panic, invariant, capacity and length kept, and
   the contents are those of the plain list (all A's) subjected to the same operations *)
Theorem C17_step : forall x len o, l_inv x -> l_len x = Some len -> lop_ok len o = true ->
  exists x', lstep x o = Some x' /\ l_size x' = l_size x /\ l_inv x' /\ l_len x' = Some len /\
             l_abs x' = slstep (l_abs x) o.
Proof. exact lstep_refines. Qed.
Theorem C17_history : forall n len ops, (1 <= n <= 6)%nat -> (len <= l_max_len n)%nat -> forallb (lop_ok len) ops = true ->
  exists x0 x, l_new n len = Some x0 /\ lsteps x0 ops = Some x /\ l_size x = n /\ l_inv x /\ l_len x = Some len /\
               l_abs x = fold_left slstep ops (repeat 0 len).
Proof. exact l_history. Qed.

(* k-mer extraction (shared with C13): the length byte is never read *)
Theorem C17_get_kmer : forall c, In c shipped -> forall x len pos, l_inv x -> l_len x = Some len -> (pos + kK c <= len)%nat ->
  exists r, l_get_kmer c x pos = Some r /\ wf (kK c) r /\ decode (kK c) r = kmer_at (kK c) (l_abs x) pos.
Proof. exact l_get_kmer_spec. Qed.
Theorem C17_iter_kmers : forall c, In c shipped -> forall x len, l_inv x -> l_len x = Some len ->
  exists ks, iter_kmers c len (l_get x) (l_get_kmer c x) = Some ks /\ Forall (wf (kK c)) ks /\
             map (decode (kK c)) ks = kmers (kK c) (l_abs x).
Proof. exact l_iter_kmers_spec. Qed.

(* derived == and Hash act on the word array; under the invariant they agree with the base sequence (whose length is
   the stored length: equal bases of different lengths are different sequences and compare unequal) *)
Theorem C17_eq_iff : forall x y, l_inv x -> l_inv y -> l_size x = l_size y -> (l_eq x y = true <-> l_abs x = l_abs y).
Proof. exact l_eq_iff. Qed.
Theorem C17_hash_feed_inj : forall x y, l_inv x -> l_inv y -> l_size x = l_size y ->
  (l_hash_feed x = l_hash_feed y <-> l_abs x = l_abs y).
Proof. exact l_hash_feed_inj. Qed.
Theorem C17_eq_len : forall x y lx ly, l_inv x -> l_inv y -> l_size x = l_size y -> l_len x = Some lx -> l_len y = Some ly ->
  l_eq x y = true -> lx = ly.
Proof. exact l_eq_len. Qed.

(* non-vacuity: a 2-word Lmer at its maximal length 60 = 32*2-4; a packed write that crosses the word boundary and
   ends on the last base before the length byte, a single-base write, rc; and a 1-word Lmer of length 28 *)
Definition C17_ops : list lop := [LSetSlice 28 32 0x1B1B1B1B1B1B1B1B; LSet 59 3; LRc; LSetSlice 0 5 0xFFFFFFFFFFFFFFFF].
Example C17_nonvacuous :
  forallb (lop_ok 60) C17_ops = true /\
  (match l_new 2 60 with
   | Some x0 => match lsteps x0 C17_ops with
                | Some x => l_invb x = true /\ l_len x = Some 60%nat /\ l_abs x = fold_left slstep C17_ops (repeat 0 60) /\
                            existsb (fun b => negb (b =? 0)) (l_abs x) = true
                | None => False end
   | None => False end) /\
  (match l_from_slice 1 (repeat 2 28) with Some x => l_invb x = true /\ l_abs x = repeat 2 28 | None => False end).
Proof. vm_compute. auto 10. Qed.

Print Assumptions C17_invb_iff.
Print Assumptions C17_new.
Print Assumptions C17_len.
Print Assumptions C17_get.
Print Assumptions C17_to_bytes.
Print Assumptions C17_set_mut.
Print Assumptions C17_set_slice_mut.
Print Assumptions C17_rc.
Print Assumptions C17_from_slice.
Print Assumptions C17_step.
Print Assumptions C17_history.
Print Assumptions C17_get_kmer.
Print Assumptions C17_iter_kmers.
Print Assumptions C17_eq_iff.
Print Assumptions C17_hash_feed_inj.
Print Assumptions C17_eq_len.
