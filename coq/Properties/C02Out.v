(* C02 / C09 (work package kout) - the graph that compress_kmers ITSELF returns has no mergeable pair of nodes, for every
   congruent compression spec.  Statements only.  (The item left open in Properties/C09Out.v; generalises
   C09R_rnext_self / C09R_compress_kmers_fixed of Properties/C04Routes.v from the pipeline payload and closed tables to
   every payload type, reduction, congruent join predicate and every table with C01's hypotheses.)

   [congruent D reduce join]: Proofs/RecompOut.v (join symmetric, a congruence for the reduction, transitive on accepted
   pairs; C09O_congruent_always / _eq_keep / _rpay / _pay: SimpleCompress, ScmapCompress and the harness specs).
   [rnext g x d = Some (y, t)]: node-level mergeability = the static stop conditions of try_extend_node
   (Check/RecompCheck.v).  "y = x" and not "None": a node that closes a cycle on itself is mergeable with itself.

   RESULTS
   (1) C02O_kmers_out_no_pair, FULL: for every table with tbl_ok, exts_sym, exts_sym_pal - extensions towards ABSENT
       k-mers allowed - no two distinct nodes of [nodes] = compress_kmers T are mergeable.  The statement is about
       [nodes] AS RETURNED (extension bytes as they are).
   (2) THE BRIEF'S STATEMENT ABOUT THE PRUNED GRAPH IS FALSE (C02O_pruned_refuted):
         compress_kmers ... T = Some nodes -> prune nodes = Some g' ->
         forall x d y t, rnext ... g' x d = Some (y, t) -> y = x                                           (* FALSE *)
         is_compressed ... g' = None,  compress_graph ... nodes None = Some g'                            (* FALSE *)
       and so is  is_compressed ... nodes = None  on the unpruned graph (is_compressed counts edges through find_edges,
       i.e. it ignores dangling bits).  Reason: a dangling extension bit makes a k-mer look branching to
       compress_kmers (try_extend_kmer counts the recorded bits), so the walk stops there although the k-mer has ONE
       real neighbour with one real return extension; after fix_exts the two nodes are adjacent through sole mutual
       extensions.  The crate's test (simplify_from_kmers, src/test.rs) asserts is_compressed() == None after
       compress_kmers only on CountFilter(1) tables, which are closed.
       What holds instead, FULL: C02O_kmers_out_pruned_pair - the ONLY mergeable pairs of distinct nodes of the pruned
       graph are those where one of the two facing node ends carries a dangling bit in [nodes] (from the general
       C02O_rnext_prune_cases, valid for every graph).
   (3) CLOSED tables (exts_closed: what the crate's test uses), FULL: C02O_kmers_out_closed / C02O_compress_kmers_compressed -
       [nodes] is a valid graph (rvalid), has nothing to prune, has no mergeable pair, is_compressed nodes = None - the
       crate's own assertion is a theorem for every congruent spec - and compress_graph nodes None = Some nodes.
   Nothing is left partial. *)
From Coq Require Import NArith List Bool Arith Permutation.
From DBG Require Import Spec.Dna Spec.GraphIndex Spec.Unitig Spec.CompressSpec Packed.ExtsModel Algo.Compress Algo.GraphModel
  Algo.Recompress Algo.IsCompressed Check.RecompCheck Check.RecompLooseCheck Check.GraphCheck
  Proofs.CompressGraphOk Proofs.RecompOut Proofs.KmersOut Proofs.KmersOutClosed.
Import ListNotations.
Open Scope nat_scope.

(* ---- the payload of a result node --------------------------------------------------------------------------------- *)
(* it answers every join test like the payload of ANY k-mer of the node (C01's payload fold over pairwise accepted payloads) *)
Theorem C02O_node_payload_join : forall D reduce join K st, 1 <= K -> congruent D reduce join ->
  forall T : table D, tbl_ok D K st T -> exts_sym D st T ->
  forall nodes, compress_kmers D reduce join st T = Some nodes ->
  forall n ent, In n nodes -> In ent T -> In (e_key D ent) (node_keys D K st n) ->
  forall c, join (snd n) c = join (e_data D ent) c.
Proof. exact node_data_join. Qed.
Print Assumptions C02O_node_payload_join.

(* ---- (1) THE THEOREM: no two distinct nodes of the result of compress_kmers are mergeable ------------------------ *)
Theorem C02O_kmers_out_no_pair : forall D reduce join K st, 1 <= K -> congruent D reduce join ->
  forall T : table D, tbl_ok D K st T -> exts_sym D st T -> exts_sym_pal D st T ->
  forall nodes, compress_kmers D reduce join st T = Some nodes ->
  forall x d y t, rnext D join K st nodes x d = Some (y, t) -> y = x.
Proof. exact kmers_out_no_pair. Qed.
Print Assumptions C02O_kmers_out_no_pair.

(* ---- (2) the pruned graph ----------------------------------------------------------------------------------------- *)
(* any graph: a mergeable pair of the pruned graph is a mergeable pair of the graph, or one of the two facing node ends
   has a dangling bit *)
Theorem C02O_rnext_prune_cases : forall D join K st (g g' : graph D) x d y t,
  (forall n, In n g -> (n_exts D n < 256)%N) -> prune D K st g = Some g' ->
  rnext D join K st g' x d = Some (y, t) ->
  rnext D join K st g x d = Some (y, t) \/
  (exists b, dangling D K st g x d b) \/ (exists b, dangling D K st g y t b).
Proof. exact rnext_prune_cases. Qed.
Print Assumptions C02O_rnext_prune_cases.

Theorem C02O_kmers_out_pruned_pair : forall D reduce join K st, 1 <= K -> congruent D reduce join ->
  forall T : table D, tbl_ok D K st T -> exts_sym D st T -> exts_sym_pal D st T ->
  forall nodes, compress_kmers D reduce join st T = Some nodes ->
  forall g' x d y t, prune D K st nodes = Some g' -> rnext D join K st g' x d = Some (y, t) ->
  y = x \/ (exists b, dangling D K st nodes x d b) \/ (exists b, dangling D K st nodes y t b).
Proof. exact kmers_out_pruned_pair. Qed.
Print Assumptions C02O_kmers_out_pruned_pair.

(* ---- (3) closed tables ---------------------------------------------------------------------------------------------- *)
Theorem C02O_kmers_out_closed : forall D reduce join K st, 1 <= K -> congruent D reduce join ->
  forall T : table D, tbl_ok D K st T -> exts_sym D st T -> exts_sym_pal D st T ->
  forall nodes, compress_kmers D reduce join st T = Some nodes -> exts_closed D st T ->
  rvalid D K st nodes /\ prune D K st nodes = Some nodes /\
  (forall x d y t, rnext D join K st nodes x d = Some (y, t) -> y = x) /\
  is_compressed D join K st nodes = None /\
  compress_graph D reduce join K st nodes None = Some nodes.
Proof. exact kmers_out_closed. Qed.
Print Assumptions C02O_kmers_out_closed.

(* the same for any compress_kmers output that happens to be a valid graph (no dangling bit) *)
Theorem C02O_kmers_out_rvalid : forall D reduce join K st, 1 <= K -> congruent D reduce join ->
  forall T : table D, tbl_ok D K st T -> exts_sym D st T -> exts_sym_pal D st T ->
  forall nodes, compress_kmers D reduce join st T = Some nodes -> rvalid D K st nodes ->
  prune D K st nodes = Some nodes /\
  (forall x d y t, rnext D join K st nodes x d = Some (y, t) -> y = x) /\
  is_compressed D join K st nodes = None /\
  compress_graph D reduce join K st nodes None = Some nodes.
Proof. exact kmers_out_rvalid_all. Qed.
Print Assumptions C02O_kmers_out_rvalid.

(* with totality: the crate's test assertion `from_kmers.is_compressed(&spec) == None` as a theorem *)
Theorem C02O_compress_kmers_compressed : forall D reduce join K st, 1 <= K -> congruent D reduce join ->
  forall T : table D, tbl_ok D K st T -> exts_sym D st T -> exts_sym_pal D st T -> exts_closed D st T ->
  exists nodes, compress_kmers D reduce join st T = Some nodes /\
    is_compressed D join K st nodes = None /\
    compress_graph D reduce join K st nodes None = Some nodes.
Proof. exact compress_kmers_compressed. Qed.
Print Assumptions C02O_compress_kmers_compressed.

(* ---- non-vacuity ------------------------------------------------------------------------------------------------------ *)
From DBG Require Check.CompressHyp Proofs.CompressHypProofs.
(* K = 4, unstranded, harness payloads, join = equal colours (mode 1; congruent).  The six canonical 4-mers of AACCGTTGA
   with extensions derived from membership (closed); colours 0 0 0 1 1 1.  compress_kmers returns AACCGT (colour 0),
   AACG (colour 1) and TCAAC (colour 1).  Nodes 0 and 1 are ADJACENT through sole mutual extensions (the right extension
   T of node 0 resolves to the right end of node 1, flipped) and are kept apart by the colours alone: with mode 0 (always
   join) the same pair of nodes IS mergeable and compress_kmers merges them.  The theorems apply. *)
Definition C02O_ex_keys : list dna := nodup (list_eq_dec N.eq_dec) (map canon (kmers 4 [0;0;1;1;2;3;3;2;0]%N)).
Definition C02O_ex_table : table rpay :=
  map (fun p => (fst (fst p), derive_exts false C02O_ex_keys (fst (fst p)), (snd (fst p), [N.of_nat (snd p)])))
      (combine (combine C02O_ex_keys [0;0;0;1;1;1]%N) (seq 0 (length C02O_ex_keys))).
Definition C02O_ex_nodes : graph rpay :=
  [ ([0;0;1;1;2;3], 130, (0,[0;1;2])); ([0;0;1;2], 66, (1,[3])); ([3;1;0;0;1], 96, (1,[4;5])) ]%N.
Example C02O_nonvacuous :
  congruent rpay rpay_reduce (rpay_join 1) /\
  tbl_ok rpay 4 false C02O_ex_table /\ exts_sym rpay false C02O_ex_table /\ exts_sym_pal rpay false C02O_ex_table /\
  exts_closed rpay false C02O_ex_table /\ length C02O_ex_table = 6 /\
  compress_kmers rpay rpay_reduce (rpay_join 1) false C02O_ex_table = Some C02O_ex_nodes /\
  (* two result nodes are adjacent, and only the colours keep them apart *)
  ext_link rpay 4 false C02O_ex_nodes 0 DRight 3 = Some (1, DRight, true) /\
  rnext rpay (rpay_join 0) 4 false C02O_ex_nodes 0 DRight = Some (1, DRight) /\
  rnext rpay (rpay_join 1) 4 false C02O_ex_nodes 0 DRight = None /\
  option_map (map fst) (compress_kmers rpay rpay_reduce (rpay_join 0) false C02O_ex_table) =
    Some [ ([0;0;1;1;2;3;3], 66); ([3;1;0;0;1], 96) ]%N /\
  (* the conclusions, by the theorems *)
  rvalid rpay 4 false C02O_ex_nodes /\
  (forall x d y t, rnext rpay (rpay_join 1) 4 false C02O_ex_nodes x d = Some (y, t) -> y = x) /\
  is_compressed rpay (rpay_join 1) 4 false C02O_ex_nodes = None /\
  compress_graph rpay rpay_reduce (rpay_join 1) 4 false C02O_ex_nodes None = Some C02O_ex_nodes.
Proof.
  assert (C : congruent rpay rpay_reduce (rpay_join 1)) by apply congruent_rpay.
  assert (H1 : tbl_ok rpay 4 false C02O_ex_table) by (apply CompressHypProofs.tbl_okb_sound; vm_compute; reflexivity).
  assert (H2 : exts_sym rpay false C02O_ex_table) by (apply CompressHypProofs.exts_symb_sound; vm_compute; reflexivity).
  assert (H3 : exts_sym_pal rpay false C02O_ex_table) by (apply exts_sym_palb_sound; vm_compute; reflexivity).
  assert (H4 : exts_closed rpay false C02O_ex_table) by (apply CompressHypProofs.exts_closedb_sound; vm_compute; reflexivity).
  assert (H5 : compress_kmers rpay rpay_reduce (rpay_join 1) false C02O_ex_table = Some C02O_ex_nodes) by (vm_compute; reflexivity).
  destruct (C02O_kmers_out_closed rpay rpay_reduce (rpay_join 1) 4 false (le_n_S _ _ (Nat.le_0_l _)) C
              C02O_ex_table H1 H2 H3 C02O_ex_nodes H5 H4) as (V & _ & NP & IC & FP).
  split; [exact C|]. split; [exact H1|]. split; [exact H2|]. split; [exact H3|]. split; [exact H4|]. split; [reflexivity|].
  split; [exact H5|]. split; [vm_compute; reflexivity|]. split; [vm_compute; reflexivity|]. split; [vm_compute; reflexivity|].
  split; [vm_compute; reflexivity|]. auto.
Qed.
Print Assumptions C02O_nonvacuous.

(* ---- (2) the statements about the pruned graph are false on loose tables ------------------------------------------ *)
(* K = 4, stranded, harness payloads, always join (mode 0; congruent).  Two k-mers: AAAC with right extensions {C, G} and
   AACC with left extension {A}; AACG is absent (e.g. removed by a count filter), so the bit G of AAAC is dangling.  The
   table has tbl_ok, exts_sym, exts_sym_pal, and is not closed.  compress_kmers sees AAAC branching on the right and
   returns the two k-mers as two nodes: no mergeable pair in [nodes] (C02O_kmers_out_no_pair applies).  In the pruned
   graph AAAC has the sole right extension C, AACC the sole left extension A: a mergeable pair of distinct nodes;
   is_compressed reports it on the pruned AND on the unpruned graph; compress_graph merges the two nodes into AAACC, so
   [nodes] is NOT a fixed point up to pruning.  C02O_kmers_out_pruned_pair names the culprit: the dangling bit. *)
Definition C02O_loose_table : table rpay := [ ([0;0;0;1], 96, (0,[0])); ([0;0;1;1], 1, (0,[1])) ]%N.
Definition C02O_loose_pruned : graph rpay := [ ([0;0;0;1], 32, (0,[0])); ([0;0;1;1], 1, (0,[1])) ]%N.
Example C02O_pruned_refuted :
  congruent rpay rpay_reduce (rpay_join 0) /\
  tbl_ok rpay 4 true C02O_loose_table /\ exts_sym rpay true C02O_loose_table /\ exts_sym_pal rpay true C02O_loose_table /\
  ~ exts_closed rpay true C02O_loose_table /\
  compress_kmers rpay rpay_reduce (rpay_join 0) true C02O_loose_table = Some C02O_loose_table /\
  (forall x d y t, rnext rpay (rpay_join 0) 4 true C02O_loose_table x d = Some (y, t) -> y = x) /\
  dangling rpay 4 true C02O_loose_table 0 DRight 2 /\
  prune rpay 4 true C02O_loose_table = Some C02O_loose_pruned /\
  (* the brief's three statements fail *)
  rnext rpay (rpay_join 0) 4 true C02O_loose_pruned 0 DRight = Some (1, DLeft) /\
  is_compressed rpay (rpay_join 0) 4 true C02O_loose_pruned = Some (0, 1) /\
  is_compressed rpay (rpay_join 0) 4 true C02O_loose_table = Some (0, 1) /\
  compress_graph rpay rpay_reduce (rpay_join 0) 4 true C02O_loose_table None = Some [ ([0;0;0;1;1], 0%N, (0%N,[0;1]%N)) ]%N /\
  compress_graph rpay rpay_reduce (rpay_join 0) 4 true C02O_loose_table None <> Some C02O_loose_pruned.
Proof.
  assert (C : congruent rpay rpay_reduce (rpay_join 0)) by apply congruent_rpay.
  assert (H1 : tbl_ok rpay 4 true C02O_loose_table) by (apply CompressHypProofs.tbl_okb_sound; vm_compute; reflexivity).
  assert (H2 : exts_sym rpay true C02O_loose_table) by (apply CompressHypProofs.exts_symb_sound; vm_compute; reflexivity).
  assert (H3 : exts_sym_pal rpay true C02O_loose_table) by (apply exts_sym_palb_sound; vm_compute; reflexivity).
  assert (H5 : compress_kmers rpay rpay_reduce (rpay_join 0) true C02O_loose_table = Some C02O_loose_table) by (vm_compute; reflexivity).
  split; [exact C|]. split; [exact H1|]. split; [exact H2|]. split; [exact H3|]. split.
  { intro Hcl. apply (Hcl ([0;0;0;1], 96, (0,[0]))%N DRight 2%N); [now left | reflexivity | vm_compute; reflexivity | vm_compute; reflexivity]. }
  split; [exact H5|].
  split; [exact (C02O_kmers_out_no_pair rpay rpay_reduce (rpay_join 0) 4 true (le_n_S _ _ (Nat.le_0_l _)) C C02O_loose_table H1 H2 H3 _ H5)|].
  split; [eexists; split; [reflexivity|]; split; vm_compute; reflexivity|].
  split; [vm_compute; reflexivity|]. split; [vm_compute; reflexivity|]. split; [vm_compute; reflexivity|].
  split; [vm_compute; reflexivity|]. split; [vm_compute; reflexivity|].
  vm_compute. intro H. discriminate H.
Qed.
Print Assumptions C02O_pruned_refuted.
