(* C16 bridge - the two executable models of the packed DnaString agree, and ASCII ingestion composes with
   k-mer extraction.
   Statements only; every proof is `exact <lemma of Proofs/BridgeProofs.v>`.
   Models: Packed/AsciiModel.v (C16: [AsciiModel.dstr], from_acgt_bytes / from_dna_string, canonical packing
   [ds_of_dna], boolean invariant [ds_inv]) and Packed/DnaStringModel.v (C14: [DnaStringModel.dstr], Prop invariant
   [d_inv], abstraction [d_abs]; k-mer extraction on it: Algo/Iter.v, C13).  [to_d] reads a value of the first
   model as a value of the second (same words, same length). *)
From Coq Require Import NArith List Bool.
From DBG Require Import Spec.Dna Spec.Ascii Packed.KmerModel Packed.Avx2Model Packed.AsciiModel Packed.Blocks
  Packed.DnaStringModel Algo.SeqHist Algo.Iter Proofs.DnaStringProofs Proofs.BridgeProofs Properties.C16.
Import ListNotations.
Open Scope N_scope.

(* ---- 1. the canonical packing of C16 satisfies the invariant of C14 and holds exactly the list *)
Theorem C16B_of_dna : forall l, wf_dna l -> d_inv (to_d (ds_of_dna l)) /\ d_abs (to_d (ds_of_dna l)) = l.
Proof. exact bridge_of_dna. Qed.
Print Assumptions C16B_of_dna.

(* ---- 2. the invariant determines the record (words and length) from the contents *)
Theorem C16B_repr_unique : forall a b, d_inv a -> d_inv b -> d_abs a = d_abs b -> a = b.
Proof. exact d_repr_unique. Qed.
Print Assumptions C16B_repr_unique.

Theorem C16B_inv_canonical : forall s, d_inv s -> s = to_d (ds_of_dna (d_abs s)).
Proof. exact d_inv_canonical. Qed.
Print Assumptions C16B_inv_canonical.

Theorem C16B_from_bytes : forall l, wf_dna l -> d_from_bytes l = Some (to_d (ds_of_dna l)).
Proof. exact bridge_from_bytes. Qed.
Print Assumptions C16B_from_bytes.

(* after ANY in-range history the packed words are exactly the canonical packing of the list result *)
Theorem C16B_history : forall ops, dops_ok 0 ops = true ->
  dsteps d_new ops = Some (to_d (ds_of_dna (fold_left sdstep ops []))).
Proof. exact bridge_history. Qed.
Print Assumptions C16B_history.

(* ---- 3. the boolean invariant of one model is the Prop invariant of the other (both directions) *)
Theorem C16B_inv_iff : forall x, ds_inv x = true <-> d_inv (to_d x).
Proof. exact bridge_inv. Qed.
Print Assumptions C16B_inv_iff.

Theorem C16B_ds_inv_canonical : forall x, ds_inv x = true <-> exists l, wf_dna l /\ x = ds_of_dna l.
Proof. exact ds_inv_canonical. Qed.
Print Assumptions C16B_ds_inv_canonical.

(* ---- 4. end to end: ASCII -> DnaString -> k-mers = ASCII -> k-mers, every shipped k-mer type, both paths *)
Theorem C16B_ascii_to_kmers : forall c, In c shipped -> forall bytes avx2, is_bytes bytes ->
  exists d, from_acgt_bytes avx2 bytes = Some d /\
    (forall pos, (pos + kK c <= length bytes)%nat ->
       exists r, d_get_kmer c (to_d d) pos = Some r /\ wf (kK c) r /\
                 decode (kK c) r = kmer_at (kK c) (map ascii_base bytes) pos) /\
    (exists ks rs, iter_kmers c (d_len (to_d d)) (d_get (to_d d)) (d_get_kmer c (to_d d)) = Some ks /\
                   kmers_from_ascii c bytes = Some rs /\ ks = rs).
Proof. exact ascii_to_kmers. Qed.
Print Assumptions C16B_ascii_to_kmers.

Theorem C16B_str_to_kmers : forall c, In c shipped -> forall text, Forall (fun ch => ch < 128) text ->
  exists d, from_dna_string text = Some d /\
    (forall pos, (pos + kK c <= length text)%nat ->
       exists r, d_get_kmer c (to_d d) pos = Some r /\ wf (kK c) r /\
                 decode (kK c) r = kmer_at (kK c) (map ascii_base text) pos) /\
    (exists ks rs, iter_kmers c (d_len (to_d d)) (d_get (to_d d)) (d_get_kmer c (to_d d)) = Some ks /\
                   kmers_from_ascii c text = Some rs /\ ks = rs).
Proof. exact str_to_kmers. Qed.
Print Assumptions C16B_str_to_kmers.

(* any value of the ASCII model satisfying its boolean invariant: the k-mers of the bases it reads back *)
Theorem C16B_ds_inv_kmers : forall c, In c shipped -> forall x, ds_inv x = true ->
  exists l, ds_to_bytes x = Some l /\ wf_dna l /\ length l = ds_len x /\
    (forall pos, (pos + kK c <= ds_len x)%nat ->
       exists r, d_get_kmer c (to_d x) pos = Some r /\ wf (kK c) r /\ decode (kK c) r = kmer_at (kK c) l pos) /\
    (exists ks, iter_kmers c (d_len (to_d x)) (d_get (to_d x)) (d_get_kmer c (to_d x)) = Some ks /\
                Forall (wf (kK c)) ks /\ map (decode (kK c)) ks = kmers (kK c) l).
Proof. exact ds_inv_kmers. Qed.
Print Assumptions C16B_ds_inv_kmers.

(* ---- 5. non-vacuity: a 70-byte mixed-case text with 9 non-ACGT bytes (3 of them >= 128); K = 5 on u16, K = 32 on u64 *)
Example C16B_ex_hyps :
  length bridge_text = 70%nat /\ forallb (fun b => b <? 256) bridge_text = true /\
  forallb (fun b => b <? 128) bridge_text = false /\
  length (filter (fun b => negb (ascii_valid b)) bridge_text) = 9%nat.
Proof. exact bridge_ex_hyps. Qed.
Example C16B_ex_shipped : In (mkc 16 5) shipped /\ In (mkc 64 32) shipped.
Proof. exact (conj c16_5_shipped c64_32_shipped). Qed.
Example C16B_ex_k5 :
  let d := mkds [1953155253968859113; 4350507046658172154; 5778118321916346368] 70 in
  let ks := the (kmers_from_ascii (mkc 16 5) bridge_text) in
    from_acgt_bytes true bridge_text = Some d /\ from_acgt_bytes false bridge_text = Some d /\
    ds_inv d = true /\ d_invb (to_d d) = true /\ d_from_bytes (map ascii_base bridge_text) = Some (to_d d) /\
    iter_kmers (mkc 16 5) (d_len (to_d d)) (d_get (to_d d)) (d_get_kmer (mkc 16 5) (to_d d)) = Some ks /\
    kmers_from_ascii (mkc 16 5) bridge_text = Some ks /\ length ks = 66%nat /\
    d_get_kmer (mkc 16 5) (to_d d) 31 = Some (nth 31 ks 0) /\
    decode 5 (nth 31 ks 0) = kmer_at 5 (map ascii_base bridge_text) 31 /\
    decode 5 (nth 31 ks 0) = [1; 0; 3; 3; 0].
Proof. exact bridge_ex_k5. Qed.
Example C16B_ex_k32 :
  let d := mkds [1953155253968859113; 4350507046658172154; 5778118321916346368] 70 in
  let ks := the (kmers_from_ascii (mkc 64 32) bridge_text) in
    iter_kmers (mkc 64 32) (d_len (to_d d)) (d_get (to_d d)) (d_get_kmer (mkc 64 32) (to_d d)) = Some ks /\
    kmers_from_ascii (mkc 64 32) bridge_text = Some ks /\ length ks = 39%nat /\
    d_get_kmer (mkc 64 32) (to_d d) 17 = Some (nth 17 ks 0) /\
    decode 32 (nth 17 ks 0) = kmer_at 32 (map ascii_base bridge_text) 17.
Proof. exact bridge_ex_k32. Qed.
Example C16B_ex_history :
  let ops := [DPush 2; DExtend (map ascii_base bridge_text); DSet 3 1; DRc; DPush 3] in
  dops_ok 0 ops = true /\ length (fold_left sdstep ops []) = 72%nat /\
  dsteps d_new ops = Some (to_d (ds_of_dna (fold_left sdstep ops []))).
Proof. exact bridge_ex_history. Qed.
