(* C05 - K-mer counting/filtering equals reference grouping for any pass count.  Statements only. *)
From Coq Require Import NArith List Bool Arith.
From DBG Require Import Spec.Dna Packed.ExtsMini Algo.KmerHist Algo.Filter Proofs.FilterSweeps Proofs.FilterProofs.
Import ListNotations.
Open Scope N_scope.

(* Every pass plan the code can compute (sz = 256/slices + 1 is between 1 and 257) passes the assertion and its
   ranges are ascending, contiguous from 0, and the buckets worked on over all passes are 0..255, each once, in
   ascending order; the number of passes is ceil(256/sz). *)
Theorem C05_ranges_tile : forall sz, 1 <= sz <= 257 ->
  exists rs, bucket_ranges sz = Some rs /\ schedule rs = buckets256 /\ contiguous 0 rs = true /\
             N.of_nat (length rs) = (256 + sz - 1) / sz.
Proof. exact ranges_tile. Qed.
Theorem C05_plan_sz_range : forall ik so m u sz, plan_sz ik so m u = Some sz -> 1 <= sz <= 257.
Proof. exact plan_sz_range. Qed.

Print Assumptions C05_ranges_tile.
Print Assumptions C05_plan_sz_range.
