(* C05 - K-mer counting/filtering equals reference grouping for any pass count.  Statements only.
   Model: Algo/Filter.v (filter_kmers line by line at Layer S), Packed/ExtsMini.v.
   Reference grouping ([reference]): take all observations (canonical k-mer, extension set, label) in input order,
   list the distinct keys in ascending order ([ref_keys] = sort + dedup), and call the summarizer once per key on
   exactly that key's observations in input order; emit accepted keys, and all keys when report_all. *)
From Coq Require Import NArith List Bool Arith Sorting.Sorted Permutation.
From DBG Require Import Spec.Dna Packed.ExtsMini Algo.KmerHist Algo.Filter Proofs.FilterSweeps Proofs.FilterProofs
  Proofs.FilterSumm.
Import ListNotations.
Open Scope N_scope.

(* Every pass plan the code can compute (sz = 256/slices + 1 lies in 1..257) passes the assertion; its ranges
   are ascending and contiguous from 0, the buckets worked on over all passes are 0..255, each exactly once and in
   ascending order, and the number of passes is ceil(256/sz).  (sz enumerated by vm_compute, 257 values.) *)
Theorem C05_ranges_tile : forall sz, 1 <= sz <= 257 ->
  exists rs, bucket_ranges sz = Some rs /\ schedule rs = buckets256 /\ contiguous 0 rs = true /\
             N.of_nat (length rs) = (256 + sz - 1) / sz.
Proof. exact ranges_tile. Qed.
Theorem C05_plan_sz_range : forall ik so m u sz, plan_sz ik so m u = Some sz -> 1 <= sz <= 257.
Proof. exact plan_sz_range. Qed.

(* bucket (first four bases) is monotone in the lexicographic order of k-mers with K >= 4 and bases < 4 *)
Theorem C05_bucket_monotone : forall x y, key_ok x -> key_ok y -> dna_leb x y = true -> bucket x <= bucket y.
Proof. exact bucket_monotone. Qed.

(* stable sort + adjacent grouping: the sort keeps each key's observations in input order, and grouping a
   key-sorted vector yields, per distinct key in ascending order, exactly that key's observations *)
Theorem C05_sort_stable : forall D k (l : list (@obs D)), filter (keq k) (sort_by_key l) = filter (keq k) l.
Proof. intros D. exact sort_stable. Qed.
Theorem C05_group_sorted : forall D (s : list (@obs D)), StronglySorted dle (map key s) ->
  group_adj s = map (grp s) (dedup_by dna_eqb (map key s)).
Proof. intros D. exact group_adj_sorted. Qed.

(* MAIN: for every summarizer, K >= 4, reads over {0..3}, both strandedness values, both report_all values and every
   memory setting with max_mem = memory_size * unit >= 1, filter_kmers does not panic and returns exactly the
   reference grouping; the pass count is the planned one (any value the plan produces, 1..256). *)
Theorem C05_filter_spec : forall D DS (summarize : list (@obs D) -> bool * N * DS) report_all
    K stranded size_of memory_size unit (reads : list (dna * N * D)),
  (4 <= K)%nat -> 1 <= memory_size * eff_unit unit -> reads_ok reads ->
  exists passes, filter_kmers summarize report_all K stranded size_of memory_size unit reads
                 = Some (reference summarize report_all K stranded reads, passes) /\
                 N.of_nat passes = pass_count (input_kmers K reads) size_of memory_size unit.
Proof. intros D DS. exact filter_spec. Qed.

(* ... in particular the result is independent of memory_size, the unit (hook) and size_of *)
Theorem C05_pass_independent : forall D DS (summarize : list (@obs D) -> bool * N * DS) report_all
    K stranded (reads : list (dna * N * D)) so1 m1 u1 so2 m2 u2,
  (4 <= K)%nat -> reads_ok reads -> 1 <= m1 * eff_unit u1 -> 1 <= m2 * eff_unit u2 ->
  option_map fst (filter_kmers summarize report_all K stranded so1 m1 u1 reads) =
  option_map fst (filter_kmers summarize report_all K stranded so2 m2 u2 reads).
Proof. intros D DS. exact pass_independent. Qed.
(* memory_size * unit = 0 is the division-by-zero panic *)
Theorem C05_zero_budget_panics : forall D DS (summarize : list (@obs D) -> bool * N * DS) report_all K stranded so m u reads,
  m * eff_unit u = 0 -> filter_kmers summarize report_all K stranded so m u reads = None.
Proof. intros D DS. exact filter_zero_budget. Qed.

(* the keys of the reference grouping: strictly ascending, exactly the keys observed *)
Theorem C05_ref_keys : forall D (os : list (@obs D)),
  StronglySorted dlt (ref_keys os) /\ forall k, In k (ref_keys os) <-> exists o, key o = k /\ In o os.
Proof. intros D os. split; [apply ref_keys_ssorted | apply ref_keys_in]. Qed.

(* the shipped summarizers *)
Theorem C05_count_filter_spec : forall D n (items : list (@obs D)),
  count_filter n items = (n <=? N.min 65535 (N.of_nat (length items)), union_exts items, N.min 65535 (N.of_nat (length items))).
Proof. intros D. exact count_filter_spec. Qed.
Theorem C05_union_exts_spec : forall D (items : list (@obs D)) i,
  N.testbit (union_exts items) i = existsb (fun it => N.testbit (oexts it) i) items.
Proof. intros D. exact union_exts_spec. Qed.
Theorem C05_count_filter_set_spec : forall n (items : list (@obs N)),
  let r := count_filter_set n items in
  fst (fst r) = (n <=? N.of_nat (length items)) /\ snd (fst r) = union_exts items /\
  StronglySorted N.lt (snd r) /\ (forall x, In x (snd r) <-> In x (map olabel items)).
Proof. exact count_filter_set_spec. Qed.

(* non-vacuity: K = 4, three reads with a palindromic k-mer (ACGT), a k-mer seen on both strands (CGTA/TACG), a read
   shorter than K and boundary extensions; 64 passes (memory_size*unit = 1 byte) and 1 pass give the reference *)
Definition ex_reads : list (dna * N * N) := [([0;1;2;3;0;1;2;3;0], 0, 7); ([3;2;1;0;3;3], 0x21, 9); ([1;1], 0, 9)].
Example C05_nonvacuous :
  reads_ok ex_reads /\
  filter_kmers (count_filter 2) true 4 false 8 1 1 ex_reads = Some (reference (count_filter 2) true 4 false ex_reads, 64%nat) /\
  filter_kmers (count_filter 2) true 4 false 8 1 0 ex_reads = Some (reference (count_filter 2) true 4 false ex_reads, 1%nat) /\
  reference (count_filter 2) true 4 false ex_reads =
    ([([0;1;2;3], 24, 2); ([1;2;3;0], 33, 3)], [[0;0;3;2]; [0;1;2;3]; [0;3;2;1]; [1;2;3;0]; [2;3;0;1]; [3;2;1;0]]).
Proof. split; [repeat constructor; cbv; reflexivity | vm_compute; auto]. Qed.

Print Assumptions C05_ranges_tile.
Print Assumptions C05_plan_sz_range.
Print Assumptions C05_bucket_monotone.
Print Assumptions C05_sort_stable.
Print Assumptions C05_group_sorted.
Print Assumptions C05_filter_spec.
Print Assumptions C05_pass_independent.
Print Assumptions C05_zero_budget_panics.
Print Assumptions C05_ref_keys.
Print Assumptions C05_count_filter_spec.
Print Assumptions C05_union_exts_spec.
Print Assumptions C05_count_filter_set_spec.
