(* C11 - K-mer equality, order and hash are those of the string.  Statements only. *)
From Coq Require Import NArith List Bool Arith.
From DBG Require Import Spec.Dna Packed.KmerModel Algo.KmerHist Proofs.KmerLanes Proofs.KmerHistProofs.
Import ListNotations.
Open Scope N_scope.

(* Every finite in-range history of value-producing operations succeeds, keeps the unused lanes zero, and
   the resulting word spells exactly what the same history does to the plain string. *)
Theorem C11_history_refines : forall c, In c shipped -> forall i ops,
  kinit_ok (kK c) i = true -> forallb (kop_ok (kK c)) ops = true ->
  exists s, khist c i ops = Some s /\ wf (kK c) s /\ decode (kK c) s = shist (kK c) i ops.
Proof. exact khist_refines. Qed.

(* Two k-mers produced by ANY two histories compare equal / hash-feed equal exactly when they spell the same
   string, and compare in lexicographic order of the strings. *)
Theorem C11_eq_ord_hash : forall c, In c shipped -> forall i1 ops1 i2 ops2 s1 s2,
  kinit_ok (kK c) i1 = true -> forallb (kop_ok (kK c)) ops1 = true ->
  kinit_ok (kK c) i2 = true -> forallb (kop_ok (kK c)) ops2 = true ->
  khist c i1 ops1 = Some s1 -> khist c i2 ops2 = Some s2 ->
  (k_eq s1 s2 = true <-> shist (kK c) i1 ops1 = shist (kK c) i2 ops2) /\
  k_cmp s1 s2 = dna_compare (shist (kK c) i1 ops1) (shist (kK c) i2 ops2) /\
  (hash_feed c s1 = hash_feed c s2 <-> shist (kK c) i1 ops1 = shist (kK c) i2 ops2).
Proof. exact khist_eq_iff. Qed.

Theorem C11_compare_lex : forall K s1 s2, wf K s1 -> wf K s2 ->
  (s1 ?= s2) = dna_compare (decode K s1) (decode K s2).
Proof. exact compare_lex. Qed.

Theorem C11_sort : forall K l, Forall (wf K) l ->
  map (decode K) (sort_by N.leb l) = sort_by dna_leb (map (decode K) l).
Proof. exact sort_refines. Qed.
Theorem C11_dedup : forall K l, Forall (wf K) l ->
  map (decode K) (dedup_by N.eqb l) = dedup_by dna_eqb (map (decode K) l).
Proof. exact dedup_refines. Qed.
Theorem C11_membership : forall K l x, Forall (wf K) l -> wf K x ->
  existsb (N.eqb x) l = existsb (dna_eqb (decode K x)) (map (decode K) l).
Proof. exact mem_refines. Qed.

(* non-vacuity: a Kmer5 history that exercises VarIntKmer::extend_right's mask and a second route to the
   same string *)
Example C11_nonvacuous :
  let c := mkc 16 5 in
  khist c (IFromBytes [3; 3; 3; 3; 3]) [OExtR 1; OExtR 2] = Some 0x3F6 /\
  khist c IEmpty [OSetSlice 0 5 0xFD80000000000000] = Some 0x3F6 /\
  khist c (IFromBytes [3; 3; 3; 3; 3]) [OExtR 1; OExtR 2; OSet 0 0] = Some 0x0F6.
Proof. vm_compute. auto. Qed.

Print Assumptions C11_history_refines.
Print Assumptions C11_eq_ord_hash.
Print Assumptions C11_compare_lex.
Print Assumptions C11_sort.
Print Assumptions C11_dedup.
Print Assumptions C11_membership.
