(* C13 - K-mer extraction agrees across all containers.  Statements only.
   Model: Algo/Iter.v (the block walk shared by DnaString::get_kmer and Lmer::get_kmer, slice get_kmer with offset /
   reverse-complement remap, DnaBytes/DnaSlice get_kmer via from_bytes, first/last k-mer, KmerIter, KmerExtsIter) and the
   bulk constructors of Packed/KmerModel.v.  [c] ranges over the 19 shipped k-mer types; [decode (kK c) r] is the base
   list of a packed k-mer, [kmer_at K l i] = bases i..i+K of the list [l]; [None] = the Rust code panics. *)
From Coq Require Import NArith List Bool Arith.
From DBG Require Import Spec.Dna Packed.KmerModel Packed.ExtsModel Packed.Blocks Packed.DnaStringModel Packed.SliceModel
  Packed.LmerModel Algo.Iter Algo.SeqHist Proofs.KmerDefaults Proofs.LmerProofs Proofs.IterProofs Proofs.DnaStringProofs Proofs.ExtractClosed.
Import ListNotations.
Open Scope N_scope.

(* ---- get_kmer: the block lemma (any vector of u64 blocks, any position, crossing any number of block boundaries) *)
Theorem C13_blocks_get_kmer : forall c, In c shipped -> forall sto, Forall (fun w => w < two64) sto ->
  forall len pos, (pos + kK c <= len)%nat -> (len <= 32 * length sto)%nat ->
  exists r, blocks_get_kmer c sto len pos = Some r /\ wf (kK c) r /\ decode (kK c) r = kmer_at (kK c) (lanes_of sto) pos.
Proof. exact blocks_get_kmer_spec. Qed.
Theorem C13_blocks_get_kmer_short : forall c sto len pos, (len < pos + kK c)%nat -> blocks_get_kmer c sto len pos = None.
Proof. exact blocks_get_kmer_short. Qed.

(* ---- get_kmer per container *)
Theorem C13_dnastring_get_kmer : forall c, In c shipped -> forall s pos, d_inv s -> (pos + kK c <= d_len s)%nat ->
  exists r, d_get_kmer c s pos = Some r /\ wf (kK c) r /\ decode (kK c) r = kmer_at (kK c) (d_abs s) pos.
Proof. exact d_get_kmer_spec. Qed.
Theorem C13_lmer_get_kmer : forall c, In c shipped -> forall x len pos, l_inv x -> l_len x = Some len -> (pos + kK c <= len)%nat ->
  exists r, l_get_kmer c x pos = Some r /\ wf (kK c) r /\ decode (kK c) r = kmer_at (kK c) (l_abs x) pos.
Proof. exact l_get_kmer_spec. Qed.
(* a slice (start, length, is_rc) of d denotes [sl_view (d_abs d) s]: the sub-list, reverse-complemented if is_rc *)
Theorem C13_slice_get_kmer : forall c, In c shipped -> forall d s pos, d_inv d ->
  (s_start s + s_length s <= d_len d)%nat -> (pos + kK c <= s_length s)%nat ->
  exists r, sl_get_kmer c d s pos = Some r /\ wf (kK c) r /\ decode (kK c) r = kmer_at (kK c) (sl_view (d_abs d) s) pos.
Proof. exact sl_get_kmer_spec. Qed.
Theorem C13_bytes_get_kmer : forall c, In c shipped -> forall (l : dna) pos, wf_dna l -> (pos + kK c <= length l)%nat ->
  exists r, bytes_get_kmer c l pos = Some r /\ wf (kK c) r /\ decode (kK c) r = kmer_at (kK c) l pos.
Proof. exact bytes_get_kmer_spec. Qed.
(* fewer than K bases from pos on: the assert / slice index panics.  [None] follows the convention of DESIGN 3.1 (a debug
   build): for pos <= len < pos+K the assert fails in every build; for pos > len a release build wraps len - pos, so the
   assert does not stop it - such calls are outside the property's domain and nothing is claimed about them *)
Theorem C13_dnastring_get_kmer_short : forall c s pos, (d_len s < pos + kK c)%nat -> d_get_kmer c s pos = None.
Proof. exact d_get_kmer_short. Qed.
Theorem C13_lmer_get_kmer_short : forall c x len pos, l_len x = Some len -> (len < pos + kK c)%nat -> l_get_kmer c x pos = None.
Proof. exact l_get_kmer_short. Qed.
Theorem C13_bytes_get_kmer_short : forall c (l : dna) pos, (length l < pos + kK c)%nat -> bytes_get_kmer c l pos = None.
Proof. exact bytes_get_kmer_short. Qed.

(* ---- trait-default code of Vmer, generic in the container: any (get, get_kmer) that read a base list l
   (first_kmer = term_kmer(Left), last_kmer = term_kmer(Right), both_term_kmer = the pair) *)
Theorem C13_first_kmer : forall c (l : dna) cget_kmer,
  (forall i, (i + kK c <= length l)%nat -> exists r, cget_kmer i = Some r /\ wf (kK c) r /\ decode (kK c) r = kmer_at (kK c) l i) ->
  (kK c <= length l)%nat ->
  exists r, first_kmer cget_kmer = Some r /\ wf (kK c) r /\ decode (kK c) r = kmer_at (kK c) l 0.
Proof. exact first_kmer_spec. Qed.
Theorem C13_last_kmer : forall c (l : dna) cget_kmer,
  (forall i, (i + kK c <= length l)%nat -> exists r, cget_kmer i = Some r /\ wf (kK c) r /\ decode (kK c) r = kmer_at (kK c) l i) ->
  (kK c <= length l)%nat ->
  exists r, last_kmer c (length l) cget_kmer = Some r /\ wf (kK c) r /\ decode (kK c) r = kmer_at (kK c) l (length l - kK c).
Proof. exact last_kmer_spec. Qed.
(* the guard is needed: len - K underflows on a sequence shorter than K *)
Theorem C13_last_kmer_short : forall c (l : dna) cget_kmer, (length l < kK c)%nat -> last_kmer c (length l) cget_kmer = None.
Proof. exact last_kmer_short. Qed.

(* KmerIter: exactly the max(0, n-K+1) k-mers, in order (nothing when n < K) *)
Theorem C13_iter_kmers : forall c, In c shipped -> forall l : dna, wf_dna l -> forall cget cget_kmer,
  (forall i, (i < length l)%nat -> cget i = Some (nth i l 0)) ->
  (forall i, (i + kK c <= length l)%nat -> exists r, cget_kmer i = Some r /\ wf (kK c) r /\ decode (kK c) r = kmer_at (kK c) l i) ->
  exists ks, iter_kmers c (length l) cget cget_kmer = Some ks /\ Forall (wf (kK c)) ks /\ map (decode (kK c)) ks = kmers (kK c) l.
Proof. exact iter_kmers_spec. Qed.
Theorem C13_kmers_count : forall K (l : dna), length (kmers K l) = (length l + 1 - K)%nat.
Proof. intros K l. unfold kmers. now rewrite map_length, seq_length. Qed.

(* KmerExtsIter: item i = (k-mer at i, left extensions, right extensions) with
   left  = the caller's left extensions at i = 0,            else exactly {l[i-1]},
   right = the caller's right extensions at the last item,   else exactly {l[i+K]} *)
Theorem C13_iter_kmer_exts : forall c, In c shipped -> forall l : dna, wf_dna l -> forall cget cget_kmer,
  (forall i, (i < length l)%nat -> cget i = Some (nth i l 0)) ->
  (forall i, (i + kK c <= length l)%nat -> exists r, cget_kmer i = Some r /\ wf (kK c) r /\ decode (kK c) r = kmer_at (kK c) l i) ->
  forall exts, exts < 256 ->
  exists items, iter_kmer_exts c (length l) cget cget_kmer exts = Some items /\
    Forall (fun it => wf (kK c) (fst it) /\ snd it < 256) items /\
    map (fun it => (decode (kK c) (fst it), exts_left (snd it), exts_right (snd it))) items =
    map (fun i => (kmer_at (kK c) l i,
                   if Nat.eqb i 0 then exts_left exts else [nth (i - 1) l 0],
                   if Nat.eqb i (length l - kK c) then exts_right exts else [nth (i + kK c) l 0]))
        (seq 0 (length l + 1 - kK c)).
Proof. exact iter_kmer_exts_spec. Qed.

(* the expected items in the form used by the list-level specification of the correspondence run (s.kmer_exts) *)
Theorem C13_kmer_exts_item_form : forall c (l : dna) exts,
  map (kmer_exts_item c l exts) (seq 0 (length l + 1 - kK c)) =
  map (fun i => (kmer_at (kK c) l i,
                 if Nat.eqb i 0 then exts_left exts else [nth (i - 1) l 0],
                 if Nat.eqb (i + kK c) (length l) then exts_right exts else [nth (i + kK c) l 0]))
      (seq 0 (length l + 1 - kK c)).
Proof. exact kmer_exts_item_form. Qed.

(* ---- the iterators on each container *)
Theorem C13_dnastring_iter_kmers : forall c, In c shipped -> forall s, d_inv s ->
  exists ks, iter_kmers c (d_len s) (d_get s) (d_get_kmer c s) = Some ks /\ Forall (wf (kK c)) ks /\
             map (decode (kK c)) ks = kmers (kK c) (d_abs s).
Proof. exact d_iter_kmers_spec. Qed.
Theorem C13_dnastring_iter_kmer_exts : forall c, In c shipped -> forall s exts, d_inv s -> exts < 256 ->
  exists items, iter_kmer_exts c (d_len s) (d_get s) (d_get_kmer c s) exts = Some items /\ Forall (item_wf c) items /\
                map (item_view c) items = map (kmer_exts_item c (d_abs s) exts) (seq 0 (d_len s + 1 - kK c)).
Proof. exact d_iter_kmer_exts_spec. Qed.
Theorem C13_dnastring_first_last : forall c, In c shipped -> forall s, d_inv s -> (kK c <= d_len s)%nat ->
  (exists r, first_kmer (d_get_kmer c s) = Some r /\ wf (kK c) r /\ decode (kK c) r = kmer_at (kK c) (d_abs s) 0) /\
  (exists r, last_kmer c (d_len s) (d_get_kmer c s) = Some r /\ wf (kK c) r /\
             decode (kK c) r = kmer_at (kK c) (d_abs s) (d_len s - kK c)).
Proof. exact d_first_last_kmer_spec. Qed.
Theorem C13_lmer_iter_kmers : forall c, In c shipped -> forall x len, l_inv x -> l_len x = Some len ->
  exists ks, iter_kmers c len (l_get x) (l_get_kmer c x) = Some ks /\ Forall (wf (kK c)) ks /\
             map (decode (kK c)) ks = kmers (kK c) (l_abs x).
Proof. exact l_iter_kmers_spec. Qed.
Theorem C13_lmer_iter_kmer_exts : forall c, In c shipped -> forall x len exts, l_inv x -> l_len x = Some len -> exts < 256 ->
  exists items, iter_kmer_exts c len (l_get x) (l_get_kmer c x) exts = Some items /\ Forall (item_wf c) items /\
                map (item_view c) items = map (kmer_exts_item c (l_abs x) exts) (seq 0 (len + 1 - kK c)).
Proof. exact l_iter_kmer_exts_spec. Qed.
Theorem C13_slice_get : forall d s i, d_inv d -> (s_start s + s_length s <= d_len d)%nat -> (i < s_length s)%nat ->
  sl_get d s i = Some (nth i (sl_view (d_abs d) s) 0).
Proof. exact sl_get_spec. Qed.
Theorem C13_slice_iter_kmers : forall c, In c shipped -> forall d s, d_inv d -> (s_start s + s_length s <= d_len d)%nat ->
  exists ks, iter_kmers c (s_length s) (sl_get d s) (sl_get_kmer c d s) = Some ks /\ Forall (wf (kK c)) ks /\
             map (decode (kK c)) ks = kmers (kK c) (sl_view (d_abs d) s).
Proof. exact sl_iter_kmers_spec. Qed.
Theorem C13_slice_iter_kmer_exts : forall c, In c shipped -> forall d s exts, d_inv d ->
  (s_start s + s_length s <= d_len d)%nat -> exts < 256 ->
  exists items, iter_kmer_exts c (s_length s) (sl_get d s) (sl_get_kmer c d s) exts = Some items /\ Forall (item_wf c) items /\
                map (item_view c) items = map (kmer_exts_item c (sl_view (d_abs d) s) exts) (seq 0 (s_length s + 1 - kK c)).
Proof. exact sl_iter_kmer_exts_spec. Qed.
Theorem C13_bytes_iter_kmers : forall c, In c shipped -> forall l : dna, wf_dna l ->
  exists ks, iter_kmers c (length l) (nth_opt l) (bytes_get_kmer c l) = Some ks /\ Forall (wf (kK c)) ks /\
             map (decode (kK c)) ks = kmers (kK c) l.
Proof. exact bytes_iter_kmers_spec. Qed.
Theorem C13_bytes_iter_kmer_exts : forall c, In c shipped -> forall (l : dna) exts, wf_dna l -> exts < 256 ->
  exists items, iter_kmer_exts c (length l) (nth_opt l) (bytes_get_kmer c l) exts = Some items /\ Forall (item_wf c) items /\
                map (item_view c) items = map (kmer_exts_item c l exts) (seq 0 (length l + 1 - kK c)).
Proof. exact bytes_iter_kmer_exts_spec. Qed.

(* ---- bulk constructors (lib.rs kmers_from_bytes / kmers_from_ascii; proved with C10) *)
Theorem C13_kmers_from_bytes : forall c, In c shipped -> forall l : dna, wf_dna l ->
  exists rs, kmers_from_bytes c l = Some rs /\ Forall (wf (kK c)) rs /\ map (decode (kK c)) rs = kmers (kK c) l.
Proof. exact kmers_from_bytes_spec. Qed.
Theorem C13_kmers_from_ascii : forall c, In c shipped -> forall l : list N,
  exists rs, kmers_from_ascii c l = Some rs /\ Forall (wf (kK c)) rs /\ map (decode (kK c)) rs = kmers (kK c) (map b2b l).
Proof. exact kmers_from_ascii_spec. Qed.

(* non-vacuity: a 70-base DnaString (3 blocks), K = 32 on u64 read at position 20 (crosses a block boundary),
   K = 64 on u128 at position 3 (touches all three blocks), K = 3 on u8; an rc slice; the iterators *)
Definition C13_seq : dna := map (fun i => N.of_nat ((i * i + i / 3) mod 4)) (seq 0 70).
Example C13_nonvacuous :
  match d_from_bytes C13_seq with
  | Some d =>
      d_invb d = true /\ length (d_sto d) = 3%nat /\
      option_map (decode 32) (d_get_kmer (mkc 64 32) d 20) = Some (kmer_at 32 C13_seq 20) /\
      option_map (decode 64) (d_get_kmer (mkc 128 64) d 3) = Some (kmer_at 64 C13_seq 3) /\
      option_map (decode 3) (d_get_kmer (mkc 8 3) d 31) = Some (kmer_at 3 C13_seq 31) /\
      (let s := {| s_start := 5; s_length := 60; s_rc := true |} in
       option_map (decode 32) (sl_get_kmer (mkc 64 32) d s 7) = Some (kmer_at 32 (sl_view C13_seq s) 7)) /\
      option_map (map (decode 32)) (iter_kmers (mkc 64 32) (d_len d) (d_get d) (d_get_kmer (mkc 64 32) d)) = Some (kmers 32 C13_seq) /\
      option_map (@length _) (iter_kmer_exts (mkc 64 32) (d_len d) (d_get d) (d_get_kmer (mkc 64 32) d) 0x21) = Some 39%nat /\
      iter_kmers (mkc 128 64) (d_len d) (d_get d) (d_get_kmer (mkc 128 64) d) <> Some []
  | None => False
  end.
Proof. vm_compute. repeat split; try reflexivity. discriminate. Qed.

Print Assumptions C13_blocks_get_kmer.
Print Assumptions C13_dnastring_get_kmer.
Print Assumptions C13_lmer_get_kmer.
Print Assumptions C13_slice_get_kmer.
Print Assumptions C13_bytes_get_kmer.
Print Assumptions C13_first_kmer.
Print Assumptions C13_last_kmer.
Print Assumptions C13_iter_kmers.
Print Assumptions C13_iter_kmer_exts.
Print Assumptions C13_dnastring_iter_kmers.
Print Assumptions C13_dnastring_iter_kmer_exts.
Print Assumptions C13_dnastring_first_last.
Print Assumptions C13_lmer_iter_kmers.
Print Assumptions C13_lmer_iter_kmer_exts.
Print Assumptions C13_slice_get.
Print Assumptions C13_slice_iter_kmers.
Print Assumptions C13_slice_iter_kmer_exts.
Print Assumptions C13_bytes_iter_kmers.
Print Assumptions C13_bytes_iter_kmer_exts.
Print Assumptions C13_kmers_from_bytes.
Print Assumptions C13_kmers_from_ascii.
Print Assumptions C13_kmer_exts_item_form.

(* ---- CLOSED forms (end of session 4): composed with C14 / C17, no representation-invariant hypothesis is left.  The
   container reached by ANY in-range history of construction / mutation operations - DnaString from the empty string,
   Lmer of capacity n from Lmer::new(len) - yields through get_kmer (every position), through the k-mer iterator and, for
   the DnaString, through every forward / reverse-complemented window, exactly the k-mers of the plain list obtained by
   applying the same operations to a list. *)
Theorem C13_dnastring_history_kmers : forall c, In c shipped -> forall ops, dops_ok 0 ops = true ->
  let l := fold_left sdstep ops [] in
  exists s, dsteps d_new ops = Some s /\ d_len s = length l /\
    (forall pos, (pos + kK c <= length l)%nat ->
       exists r, d_get_kmer c s pos = Some r /\ wf (kK c) r /\ decode (kK c) r = kmer_at (kK c) l pos) /\
    (exists ks, iter_kmers c (d_len s) (d_get s) (d_get_kmer c s) = Some ks /\ Forall (wf (kK c)) ks /\
                map (decode (kK c)) ks = kmers (kK c) l) /\
    (forall sl pos, (s_start sl + s_length sl <= length l)%nat -> (pos + kK c <= s_length sl)%nat ->
       exists r, sl_get_kmer c s sl pos = Some r /\ wf (kK c) r /\
                 decode (kK c) r = kmer_at (kK c) (sl_view l sl) pos).
Proof. exact dnastring_history_kmers. Qed.
Theorem C13_lmer_history_kmers : forall c, In c shipped -> forall n len ops,
  (1 <= n <= 6)%nat -> (len <= l_max_len n)%nat -> forallb (lop_ok len) ops = true ->
  let l := fold_left slstep ops (repeat 0 len) in
  exists x0 x, l_new n len = Some x0 /\ lsteps x0 ops = Some x /\
    (forall pos, (pos + kK c <= len)%nat ->
       exists r, l_get_kmer c x pos = Some r /\ wf (kK c) r /\ decode (kK c) r = kmer_at (kK c) l pos) /\
    (exists ks, iter_kmers c len (l_get x) (l_get_kmer c x) = Some ks /\ Forall (wf (kK c)) ks /\
                map (decode (kK c)) ks = kmers (kK c) l).
Proof. exact lmer_history_kmers. Qed.
(* non-vacuity: a history crossing a block boundary, then the 5-mer straddling it *)
Example C13_history_nonvacuous :
  dops_ok 0 [DExtend (repeat 1 30); DPush 2; DPush 3; DPush 0; DSet 29 3] = true /\
  (match dsteps d_new [DExtend (repeat 1 30); DPush 2; DPush 3; DPush 0; DSet 29 3] with
   | Some s => option_map (decode 5) (d_get_kmer (mkc 16 5) s 28) = Some [1; 3; 2; 3; 0]
   | None => False end).
Proof. vm_compute. auto. Qed.
Print Assumptions C13_dnastring_history_kmers.
Print Assumptions C13_lmer_history_kmers.
