(* C09 (work package outmax) - the OUTPUT of compress_graph has no mergeable pair; it is a valid graph, a fixed point of
   compress_graph, and passes the crate's own is_compressed test (the debug assertion at the end of compress_graph).
   Statements only.

   Properties/C09.v proves maximality w.r.t. the RESTRICTED INPUT graph (C09_recompress_maximal) and that a valid graph
   without mergeable pair is a fixed point (C09_recompress_idempotent).  Whether the OUTPUT has a mergeable pair depends
   on the compression spec: [rnext] on the output applies [join] to the FOLDED payloads of two result nodes, the walk
   applied it to the payloads of the two input nodes at the junction (finding F11, C09_debug_assert_refuted).

   [congruent reduce join] (Proofs/RecompOut.v):
        (forall a b, join a b = join b a)
     /\ (forall a b c, join a b = true -> join (reduce a b) c = join a c)        (congruence for the reduction)
     /\ (forall a b c, join a b = true -> join a c = join b c)                   (transitivity on accepted pairs).
   The third clause is NOT in the brief's definition ([congruent_weak]); it is necessary: C09O_weak_congruence_refuted.
   [cross_ok g S] (Proofs/RecompOutEnds.v): unstranded only - no surviving node's end k-mer is the reverse complement of the
   opposite end of ANOTHER surviving node, nor of its own opposite end unless the node is a single k-mer (the third
   clause of C03's [ends_ok], restricted to S).  [rvalid] asks only for distinct left ends and distinct right ends; a
   node traversed flipped at the end of its path contributes the reverse complement of its other end.  The hypothesis
   is necessary too: C09O_cross_needed (a VALID graph, the harness spec: the output has a mergeable pair, is not
   valid, is not a fixed point).  It holds whenever every canonical k-mer occurs once among the surviving nodes
   (C09O_cross_ok_of_kmers), in every stranded graph (C09O_cross_ok_stranded), and in every graph with C03's [ends_ok]
   (C09O_cross_ok_of_ends_ok), in particular in every graph compress_kmers builds.
   All theorems: every payload type, reduction, K, strandedness, LOOSELY valid input graph (dangling extension bits
   allowed), every censor list. *)
From Coq Require Import NArith List Bool Arith Permutation.
From DBG Require Import Proofs.AbstractWalk.
From DBG Require Import Spec.Dna Spec.GraphIndex Packed.ExtsModel Algo.Compress Algo.GraphModel Algo.Recompress
  Algo.IsCompressed Spec.EdgeSpec Check.RecompCheck Check.RecompLooseCheck Check.GraphCheck
  Proofs.RecompCheckProofs Proofs.RecompressProofs Proofs.RecompExts Proofs.RecompLooseMain
  Proofs.RecompOut Proofs.RecompOutEnds Proofs.RecompOutMax Proofs.RecompOutValid Proofs.RecompOutMain.
Import ListNotations.
Open Scope N_scope.

(* ---- congruent specs --------------------------------------------------------------------------------------------------- *)
(* SimpleCompress: always join, any reduction *)
Theorem C09O_congruent_always : forall D (reduce : D -> D -> D), congruent D reduce (fun _ _ => true).
Proof. exact congruent_always. Qed.
Print Assumptions C09O_congruent_always.

(* ScmapCompress: join = payload equality, the payload of the first node is kept *)
Theorem C09O_congruent_eq_keep : forall D (eqb : D -> D -> bool),
  (forall a b, eqb a b = true <-> a = b) -> congruent D (fun a _ => a) eqb.
Proof. exact congruent_eq_keep. Qed.
Print Assumptions C09O_congruent_eq_keep.

(* the harness payloads (Check/RecompCheck.v, Check/GraphCheck.v), every mode *)
Theorem C09O_congruent_rpay : forall mode, congruent rpay rpay_reduce (rpay_join mode).
Proof. exact congruent_rpay. Qed.
Print Assumptions C09O_congruent_rpay.

Theorem C09O_congruent_pay : forall mode, congruent pay pay_reduce (pay_join mode).
Proof. exact congruent_pay. Qed.
Print Assumptions C09O_congruent_pay.

(* the payload fold of pairwise joinable payloads answers every join test like its first / like any member *)
Theorem C09O_fold_join : forall D reduce join, congruent D reduce join -> forall ds d0 dm,
  (forall d, In d ds -> join d0 d = true) -> join d0 dm = true ->
  forall c, join (fold_left reduce ds d0) c = join dm c.
Proof. exact fold_join_member. Qed.
Print Assumptions C09O_fold_join.

(* the spec of finding F11 (C09_debug_assert_refuted: colour SUM with colour equality; f11_reduce of Properties/C09.v)
   violates already the second clause *)
Theorem C09O_f11_not_congruent :
  ~ congruent_weak rpay (fun a b : rpay => (fst a + fst b, snd a ++ snd b)) (rpay_join 1).
Proof. exact f11_not_congruent. Qed.
Print Assumptions C09O_f11_not_congruent.

(* ---- the hypothesis on the ends -------------------------------------------------------------------------------------- *)
Theorem C09O_cross_ok_stranded : forall D K stranded (g : graph D) S, stranded = true -> cross_ok D K stranded g S.
Proof. exact cross_ok_stranded. Qed.
Print Assumptions C09O_cross_ok_stranded.

Theorem C09O_cross_ok_of_kmers : forall D K stranded (g : graph D) S,
  Forall (node_ok D K) g -> NoDup (surv_kmers D K stranded g S) -> cross_ok D K stranded g S.
Proof. exact nodup_kmers_cross_ok. Qed.
Print Assumptions C09O_cross_ok_of_kmers.

Theorem C09O_cross_ok_of_ends_ok : forall D K stranded (g : graph D) S,
  ends_ok D K stranded g -> cross_ok D K stranded g S.
Proof. exact ends_ok_cross_ok. Qed.
Print Assumptions C09O_cross_ok_of_ends_ok.

(* ---- the structure behind the proofs: ends and extensions of result nodes ------------------------------------------ *)
(* the terminal k-mer of result node n on side d is the terminal k-mer of the end node (v, s) of its node path on its
   outward side, read in the direction of travel; its extension bits there are those of v (complemented when flipped) *)
Theorem C09O_result_node_end : forall D reduce join K stranded (g1 : graph D) S r,
  winv D K stranded g1 S ->
  (forall x, In x r -> exists lp seed rp, snd x = assemble lp seed rp /\ built D reduce K g1 (fst x) lp seed rp /\
     Linked D join K stranded g1 (snd x) /\ NoDup (map fst (snd x)) /\ (forall y, In y (map fst (snd x)) -> In y S)) ->
  forall x d, In x r ->
  exists v s nv, endelt (snd x) d = Some (v, s) /\ In (v, s) (snd x) /\ In v S /\ nth_error g1 v = Some nv /\
    ext_side (snd x) v (eside s d) /\ (s = DRight -> stranded = false) /\
    term_kmer K (n_seq D (fst x)) d = osq s (term_kmer K (n_seq D nv) (eside s d)).
Proof. exact out_end. Qed.
Print Assumptions C09O_result_node_end.

(* the payload of a result node answers the join test like the payload of ANY node of its path *)
Theorem C09O_result_node_join : forall D reduce join K stranded (g1 : graph D) S r,
  (forall x, In x r -> exists lp seed rp, snd x = assemble lp seed rp /\ built D reduce K g1 (fst x) lp seed rp /\
     Linked D join K stranded g1 (snd x) /\ NoDup (map fst (snd x)) /\ (forall y, In y (map fst (snd x)) -> In y S)) ->
  congruent D reduce join -> forall x v nv c,
  In x r -> In v (map fst (snd x)) -> nth_error g1 v = Some nv ->
  join (n_data D (fst x)) c = join (n_data D nv) c.
Proof. exact out_data_join. Qed.
Print Assumptions C09O_result_node_join.

(* ---- THE THEOREM: no two distinct nodes of the result of compress_graph are mergeable ---------------------------- *)
Theorem C09O_recompress_output_no_pair : forall D reduce join K stranded, congruent D reduce join ->
  forall (g : graph D) censor out paths,
  rvalid_loose D K stranded g -> cross_ok D K stranded g (survivors D g censor) ->
  compress_graph_paths D reduce join K stranded g censor = Some (out, paths) ->
  forall x d y t, rnext D join K stranded out x d = Some (y, t) -> y = x.
Proof. exact recompress_output_no_pair. Qed.
Print Assumptions C09O_recompress_output_no_pair.

(* ---- the result is a valid graph (and has C03's distinct-ends condition, so the hypothesis reproduces itself) -------- *)
Theorem C09O_recompress_out_rvalid : forall D reduce join K stranded, congruent D reduce join ->
  forall (g : graph D) censor out paths,
  rvalid_loose D K stranded g -> cross_ok D K stranded g (survivors D g censor) ->
  compress_graph_paths D reduce join K stranded g censor = Some (out, paths) ->
  rvalid D K stranded out /\ ends_ok D K stranded out.
Proof. exact recompress_out_rvalid. Qed.
Print Assumptions C09O_recompress_out_rvalid.

(* ---- idempotence for OUTPUTS: compressing the result once more returns it unchanged --------------------------------- *)
Theorem C09O_recompress_twice : forall D reduce join K stranded, congruent D reduce join ->
  forall (g : graph D) censor out paths,
  rvalid_loose D K stranded g -> cross_ok D K stranded g (survivors D g censor) ->
  compress_graph_paths D reduce join K stranded g censor = Some (out, paths) ->
  compress_graph D reduce join K stranded out None = Some out.
Proof. exact recompress_twice. Qed.
Print Assumptions C09O_recompress_twice.

(* ---- the crate's is_compressed (Algo/IsCompressed.v) --------------------------------------------------------------- *)
(* on a valid graph a pair reported by is_compressed is a mergeable pair of distinct nodes in the sense of [rnext]; not
   conversely (the palindrome exemptions of is_compressed do not depend on strandedness) *)
Theorem C09O_is_compressed_at_rnext : forall D join K stranded (g : graph D) i d nx,
  rvalid D K stranded g -> is_compressed_at D join K stranded g i d = Some nx ->
  exists t, rnext D join K stranded g i d = Some (nx, t) /\ nx <> i.
Proof. exact is_compressed_at_rnext. Qed.
Print Assumptions C09O_is_compressed_at_rnext.

Theorem C09O_is_compressed_none_of_no_pair : forall D join K stranded (g : graph D),
  rvalid D K stranded g -> (forall x d y t, rnext D join K stranded g x d = Some (y, t) -> y = x) ->
  is_compressed D join K stranded g = None.
Proof. exact is_compressed_none_of_no_pair. Qed.
Print Assumptions C09O_is_compressed_none_of_no_pair.

(* the debug assertion `debug_assert!(dbg.is_compressed(compression) == None)` cannot fire for a congruent spec *)
Theorem C09O_is_compressed_none : forall D reduce join K stranded, congruent D reduce join ->
  forall (g : graph D) censor out paths,
  rvalid_loose D K stranded g -> cross_ok D K stranded g (survivors D g censor) ->
  compress_graph_paths D reduce join K stranded g censor = Some (out, paths) ->
  is_compressed D join K stranded out = None.
Proof. exact is_compressed_none. Qed.
Print Assumptions C09O_is_compressed_none.

(* ---- all of it from "every (canonical) k-mer once among the surviving nodes", which the result satisfies again ------ *)
Theorem C09O_outputs_kmers : forall D reduce join K stranded, congruent D reduce join ->
  forall (g : graph D) censor out paths,
  rvalid_loose D K stranded g -> NoDup (surv_kmers D K stranded g (survivors D g censor)) ->
  compress_graph_paths D reduce join K stranded g censor = Some (out, paths) ->
  out_maximal D join K stranded out /\ rvalid D K stranded out /\ ends_ok D K stranded out /\
  is_compressed D join K stranded out = None /\
  compress_graph D reduce join K stranded out None = Some out /\
  kmers_exact D K stranded g censor out.
Proof. exact recompress_outputs_kmers. Qed.
Print Assumptions C09O_outputs_kmers.

(* stranded graphs: no hypothesis beyond loose validity *)
Theorem C09O_outputs_stranded : forall D reduce join K stranded, congruent D reduce join ->
  forall (g : graph D) censor out paths,
  stranded = true -> rvalid_loose D K stranded g ->
  compress_graph_paths D reduce join K stranded g censor = Some (out, paths) ->
  out_maximal D join K stranded out /\ rvalid D K stranded out /\ ends_ok D K stranded out /\
  is_compressed D join K stranded out = None /\
  compress_graph D reduce join K stranded out None = Some out.
Proof. exact recompress_outputs_stranded. Qed.
Print Assumptions C09O_outputs_stranded.

(* ---- compress_graph applied to what compress_kmers returns ---------------------------------------------------------- *)
(* The graphs compress_kmers builds from a table with C01's hypotheses are loosely valid and [ends_ok]; so, with any
   censor list, the result of compress_graph on them has all the properties above.
   NOT proved here (the brief's optional item): the same three statements for the output [nodes] of compress_kmers ITSELF
   read as a graph (no mergeable pair of nodes of [nodes], is_compressed nodes = None).  It needs C02's k-mer level
   maximality (C02_no_mergeable_pair_across, a statement about [mstep] on the table) lifted to [rnext] on the node graph -
   node extension bytes, find_link on node ends, join on folded payloads - which is a development of the size of this work
   package and does not follow from C09X_compress_kmers_rvalid_loose. *)
From DBG Require Spec.CompressSpec Proofs.CompressGraphOk Proofs.RecompOutKmers.
Theorem C09O_compress_kmers_graph_outputs : forall D reduce join K stranded, (1 <= K)%nat -> congruent D reduce join ->
  forall T : Compress.table D,
  CompressSpec.tbl_ok D K stranded T -> CompressSpec.exts_sym D stranded T -> CompressGraphOk.exts_sym_pal D stranded T ->
  exists nodes, Compress.compress_kmers D reduce join stranded T = Some nodes /\
    forall censor, exists out paths,
      compress_graph_paths D reduce join K stranded nodes censor = Some (out, paths) /\
      out_maximal D join K stranded out /\ rvalid D K stranded out /\ ends_ok D K stranded out /\
      is_compressed D join K stranded out = None /\
      compress_graph D reduce join K stranded out None = Some out.
Proof. exact RecompOutKmers.compress_kmers_graph_outputs. Qed.
Print Assumptions C09O_compress_kmers_graph_outputs.

(* non-vacuity of the hypotheses on the table: the count-filtered table of C09X_nonvacuous_table (the canonical 4-mers
   of ACGTTGCAACTCCGA with extensions derived from membership, the entry of CTCC removed afterwards) *)
From DBG Require Check.CompressHyp Proofs.CompressHypProofs.
Definition C09O_ex_keys : list dna :=
  nodup (list_eq_dec N.eq_dec) (map canon (kmers 4 [0;1;2;3;3;2;1;0;0;1;3;1;1;2;0]%N)).
Definition C09O_ex_table0 : Compress.table rpay :=
  map (fun p => (fst p, Compress.derive_exts false C09O_ex_keys (fst p), (0%N, [N.of_nat (snd p)])))
      (combine C09O_ex_keys (seq 0 (length C09O_ex_keys))).
Definition C09O_ex_table : Compress.table rpay := firstn 7 C09O_ex_table0 ++ skipn 8 C09O_ex_table0.
Example C09O_nonvacuous_table :
  CompressSpec.tbl_ok rpay 4 false C09O_ex_table /\ CompressSpec.exts_sym rpay false C09O_ex_table /\
  CompressGraphOk.exts_sym_pal rpay false C09O_ex_table /\
  exists nodes, Compress.compress_kmers rpay rpay_reduce (rpay_join 1) false C09O_ex_table = Some nodes /\
    length nodes = 6%nat /\ ~ rvalid rpay 4 false nodes /\
    exists out paths, compress_graph_paths rpay rpay_reduce (rpay_join 1) 4 false nodes (Some [1%nat]) = Some (out, paths) /\
      length out = 4%nat /\ out_maximal rpay (rpay_join 1) 4 false out /\ rvalid rpay 4 false out /\
      is_compressed rpay (rpay_join 1) 4 false out = None.
Proof.
  assert (H1 : CompressSpec.tbl_ok rpay 4 false C09O_ex_table)
    by (apply CompressHypProofs.tbl_okb_sound; vm_compute; reflexivity).
  assert (H2 : CompressSpec.exts_sym rpay false C09O_ex_table)
    by (apply CompressHypProofs.exts_symb_sound; vm_compute; reflexivity).
  assert (H3 : CompressGraphOk.exts_sym_pal rpay false C09O_ex_table)
    by (apply CompressGraphOk.exts_sym_palb_sound; vm_compute; reflexivity).
  split; [exact H1|]. split; [exact H2|]. split; [exact H3|].
  destruct (C09O_compress_kmers_graph_outputs rpay rpay_reduce (rpay_join 1) 4 false (le_n_S _ _ (Nat.le_0_l _))
              (C09O_congruent_rpay 1) C09O_ex_table H1 H2 H3) as (nodes & Hc & Hall).
  exists nodes. split; [exact Hc|].
  assert (E : Compress.compress_kmers rpay rpay_reduce (rpay_join 1) false C09O_ex_table =
              Some [ ([0;1;2;3], 129, (0,[0])); ([0;0;1;2], 130, (0,[1])); ([3;2;1;0], 24, (0,[2])); ([2;1;0;0;1], 200, (0,[3;4]));
                     ([0;0;1;3;1], 34, (0,[5;6])); ([3;1;2;2;0], 64, (0,[8;9])) ]) by (vm_compute; reflexivity).
  rewrite E in Hc. injection Hc as <-.
  split; [reflexivity|]. split.
  { intros (_ & _ & _ & _ & Hres & _).
    apply (Hres 4%nat DRight 1 ([0;0;1;3;1], 34, (0,[5;6]))); [reflexivity | cbn; auto | vm_compute; reflexivity | vm_compute; reflexivity]. }
  destruct (Hall (Some [1%nat])) as (out & paths & Hg & M & R & _ & I & _).
  exists out, paths. split; [exact Hg|].
  assert (L : option_map (fun x => length (fst x)) (Some (out, paths)) = Some 4%nat) by (rewrite <- Hg; vm_compute; reflexivity).
  cbn in L. injection L as L. auto.
Qed.
Print Assumptions C09O_nonvacuous_table.

(* ---- non-vacuity ------------------------------------------------------------------------------------------------------- *)
(* K = 4, unstranded, harness payloads with mode 1 (join = equal colours; congruent).  AACCG (colour 0) -> CCGTT (colour 0)
   -> TCAAC (colour 1; traversed flipped: GTTGA), plus an isolated node; dangling bits on nodes 0, 2, 3 (the graph is
   loosely valid, not valid); every canonical 4-mer occurs once.  Nodes 0 and 1 merge into AACCGTT; node 2 stays apart
   ALTHOUGH the result nodes 0 and 1 are adjacent through sole mutual extensions (the result graph resolves the right
   extension G of node 0 to the right end of node 1, flipped): the pair test really runs and is decided by the colours -
   with mode 0 (always join) the same result pair IS mergeable, and compress_graph merges all three input nodes.
   The theorems apply: no mergeable pair, valid, fixed point, is_compressed = None. *)
Definition C09O_ex : graph rpay :=
  [ ([0;0;1;1;2], 148, (0,[0])); ([1;1;2;3;3], 65, (0,[1])); ([3;1;0;0;1], 72, (1,[2])); ([2;2;2;0;2;0], 72, (0,[3])) ].
Definition C09O_ex_out : graph rpay :=
  [ ([0;0;1;1;2;3;3], 64, (0,[0;1])); ([3;1;0;0;1], 64, (1,[2])); ([2;2;2;0;2;0], 0, (0,[3])) ].
Example C09O_nonvacuous :
  congruent rpay rpay_reduce (rpay_join 1) /\
  rvalid_loose rpay 4 false C09O_ex /\ ~ rvalid rpay 4 false C09O_ex /\
  NoDup (surv_kmers rpay 4 false C09O_ex (survivors rpay C09O_ex None)) /\
  cross_ok rpay 4 false C09O_ex (survivors rpay C09O_ex None) /\
  compress_graph_paths rpay rpay_reduce (rpay_join 1) 4 false C09O_ex None =
    Some (C09O_ex_out, [ [(0%nat, DLeft); (1%nat, DLeft)]; [(2%nat, DLeft)]; [(3%nat, DLeft)] ]) /\
  (* the two result nodes are adjacent, and only the colours keep them apart *)
  ext_link rpay 4 false C09O_ex_out 0 DRight 2 = Some (1%nat, DRight, true) /\
  rnext rpay (rpay_join 0) 4 false C09O_ex_out 0 DRight = Some (1%nat, DRight) /\
  rnext rpay (rpay_join 1) 4 false C09O_ex_out 0 DRight = None /\
  option_map (map (n_seq rpay)) (compress_graph rpay rpay_reduce (rpay_join 0) 4 false C09O_ex None) =
    Some [ [0;0;1;1;2;3;3;2;0]; [2;2;2;0;2;0] ] /\
  (* the conclusions, by the theorems *)
  out_maximal rpay (rpay_join 1) 4 false C09O_ex_out /\ rvalid rpay 4 false C09O_ex_out /\
  is_compressed rpay (rpay_join 1) 4 false C09O_ex_out = None /\
  compress_graph rpay rpay_reduce (rpay_join 1) 4 false C09O_ex_out None = Some C09O_ex_out.
Proof.
  assert (C : congruent rpay rpay_reduce (rpay_join 1)) by apply C09O_congruent_rpay.
  assert (V : rvalid_loose rpay 4 false C09O_ex) by (apply rvalid_looseb_sound; vm_compute; reflexivity).
  assert (N : NoDup (surv_kmers rpay 4 false C09O_ex (survivors rpay C09O_ex None))) by (apply nodupb_sound; vm_compute; reflexivity).
  assert (H : compress_graph_paths rpay rpay_reduce (rpay_join 1) 4 false C09O_ex None =
                Some (C09O_ex_out, [ [(0%nat, DLeft); (1%nat, DLeft)]; [(2%nat, DLeft)]; [(3%nat, DLeft)] ]))
    by (vm_compute; reflexivity).
  destruct (C09O_outputs_kmers rpay rpay_reduce (rpay_join 1) 4 false C C09O_ex None _ _ V N H) as (M & R & _ & I & T & _).
  split; [exact C|]. split; [exact V|]. split.
  { intros (_ & _ & _ & _ & Hres & _).
    apply (Hres 0%nat DRight 0 ([0;0;1;1;2], 148, (0,[0]))); [reflexivity | cbn; auto | vm_compute; reflexivity | vm_compute; reflexivity]. }
  split; [exact N|]. split; [apply C09O_cross_ok_of_kmers; [apply V | exact N]|]. split; [exact H|].
  split; [vm_compute; reflexivity|]. split; [vm_compute; reflexivity|]. split; [vm_compute; reflexivity|].
  split; [vm_compute; reflexivity|]. auto.
Qed.
Print Assumptions C09O_nonvacuous.

(* ---- the third clause of [congruent] is necessary ------------------------------------------------------------------- *)
(* join = "colours differ by at most 1" with the harness reduction (the colour of the first node is kept) is symmetric
   and a congruence for the reduction - the brief's two-clause definition - but not transitive.  On the valid stranded
   chain AAAC (1) -> AACC (2) -> ACCG (3) -> CCGA (1) every k-mer occurs once; the walk merges the first three nodes
   (1~2, 2~3) into AAACCG, colour 1, and refuses the last junction (3 vs 1); the two result nodes have colours 1 and 1:
   they ARE mergeable, is_compressed reports them (the debug assertion fires), and compressing once more merges them. *)
Definition C09O_weak_graph : graph rpay :=
  [ ([0;0;0;1], 32, (1,[0])); ([0;0;1;1], 65, (2,[1])); ([0;1;1;2], 17, (3,[2])); ([1;1;2;0], 1, (1,[3])) ].
Example C09O_weak_congruence_refuted :
  congruent_weak rpay rpay_reduce near_join /\ ~ congruent rpay rpay_reduce near_join /\
  rvalid rpay 4 true C09O_weak_graph /\
  NoDup (surv_kmers rpay 4 true C09O_weak_graph (survivors rpay C09O_weak_graph None)) /\
  exists out, compress_graph rpay rpay_reduce near_join 4 true C09O_weak_graph None = Some out /\
    out = [ ([0;0;0;1;1;2], 16, (1,[0;1;2])); ([1;1;2;0], 1, (1,[3])) ] /\
    rnext rpay near_join 4 true out 0 DRight = Some (1%nat, DLeft) /\
    is_compressed rpay near_join 4 true out = Some (0%nat, 1%nat) /\
    compress_graph rpay rpay_reduce near_join 4 true out None = Some [ ([0;0;0;1;1;2;0], 0, (1,[0;1;2;3])) ].
Proof.
  split; [exact near_join_weak|]. split; [exact near_join_not_congruent|].
  split; [apply rvalidb_sound; vm_compute; reflexivity|].
  split; [apply nodupb_sound; vm_compute; reflexivity|].
  eexists. split; [vm_compute; reflexivity|]. split; [reflexivity|]. repeat split; vm_compute; reflexivity.
Qed.
Print Assumptions C09O_weak_congruence_refuted.

(* ---- the hypothesis [cross_ok] is necessary ---------------------------------------------------------------------------- *)
(* K = 3, unstranded, the congruent harness spec (mode 1).  The graph is VALID ([rvalid]: distinct left ends, distinct
   right ends, all extensions resolve symmetrically), but the left end ACG of node 2 (ACGG) is the reverse complement of
   the right end CGT of node 3 (GCGT): [cross_ok] fails (the canonical 3-mer ACG occurs twice).  Seed 0 (GCAA) walks left
   into node 3 FLIPPED, giving the result node ACGCAA whose left end is ACG as well.  In the result graph the extension
   G of node 1 (TTAC, colour 1) - which in the input led to node 2 (colour 2, refused) - resolves to result node 0
   (colour 1): a mergeable pair.  The output is not valid, is_compressed reports the pair, and compressing once more
   merges it into TTACGCAA: WITHOUT [cross_ok] THE STATEMENTS ABOVE ARE FALSE. *)
Definition C09O_cross_graph : graph rpay :=
  [ ([2;1;0;0], 2, (1,[0])); ([3;3;0;1], 64, (1,[1])); ([0;1;2;2], 8, (2,[2])); ([2;1;2;3], 24, (1,[3])); ([2;3;0;0], 2, (3,[4])) ].
Example C09O_cross_needed :
  congruent rpay rpay_reduce (rpay_join 1) /\ rvalid rpay 3 false C09O_cross_graph /\
  ~ cross_ok rpay 3 false C09O_cross_graph (survivors rpay C09O_cross_graph None) /\
  exists out paths, compress_graph_paths rpay rpay_reduce (rpay_join 1) 3 false C09O_cross_graph None = Some (out, paths) /\
    out = [ ([0;1;2;1;0;0], 8, (1,[0;3])); ([3;3;0;1], 64, (1,[1])); ([0;1;2;2], 8, (2,[2])); ([2;3;0;0], 2, (3,[4])) ] /\
    paths = [ [(3%nat, DRight); (0%nat, DLeft)]; [(1%nat, DLeft)]; [(2%nat, DLeft)]; [(4%nat, DLeft)] ] /\
    rnext rpay (rpay_join 1) 3 false out 1 DRight = Some (0%nat, DLeft) /\
    rvalidb rpay 3 false out = false /\
    is_compressed rpay (rpay_join 1) 3 false out = Some (0%nat, 1%nat) /\
    compress_graph rpay rpay_reduce (rpay_join 1) 3 false out None =
      Some [ ([3;3;0;1;2;1;0;0], 0, (1,[0;3;1])); ([0;1;2;2], 8, (2,[2])); ([2;3;0;0], 2, (3,[4])) ].
Proof.
  split; [apply C09O_congruent_rpay|]. split; [apply rvalidb_sound; vm_compute; reflexivity|]. split.
  { intro X.
    destruct (X eq_refl 2%nat 3%nat DLeft ([0;1;2;2], 8, (2,[2])) ([2;1;2;3], 24, (1,[3]))) as [E _];
      [vm_compute; auto 10 | vm_compute; auto 10 | reflexivity | reflexivity | vm_compute; reflexivity | discriminate E]. }
  eexists. eexists. split; [vm_compute; reflexivity|]. split; [reflexivity|]. split; [reflexivity|].
  repeat split; vm_compute; reflexivity.
Qed.
Print Assumptions C09O_cross_needed.

(* the smallest instance for validity alone: [ACGA; TTCC; AACGT], no payload involved *)
Example C09O_out_rvalid_needs_cross :
  let g : graph rpay := [ ([0;1;2;0], 0, (0,[0])); ([3;3;1;1], 4, (0,[1])); ([0;0;1;2;3], 4, (0,[2])) ] in
  rvalid rpay 3 false g /\
  option_map (fun o => (map fst (map fst o), rvalidb rpay 3 false o))
             (compress_graph rpay rpay_reduce (rpay_join 0) 3 false g None) =
    Some ([ [0;1;2;0]; [0;1;2;3;3;1;1] ], false).
Proof. intro g. split; [apply rvalidb_sound; vm_compute; reflexivity | vm_compute; reflexivity]. Qed.
Print Assumptions C09O_out_rvalid_needs_cross.
