(* C09 (work package seed9) - in compress_graph the seed of every result node is the LOWEST-numbered input node of its
   path.  Statements only.

   Properties/C09.v proves the payload FOLD ORDER (C09_payload_fold / C09X_payload_fold): every result node n with path p
   has a decomposition p = assemble lp seed rp (= rev (left path, flipped) ++ (seed, DLeft) :: right path) with
   n_data n = fold_left reduce (payloads of the left path walking away from the seed ++ payloads of the right path)
   (payload of the seed).  Here: for THE SAME decomposition the seed is the smallest node id of the path (and the ids
   of a path are distinct, so the seed is determined by the path) - the outer loop of compress_graph visits the ids
   0, 1, .. in order and seeds a path at the first id still available (Proofs/RecompSeedMin.v: rb_loop refines
   [compress_s], the struct version of AbstractWalk.compress of Proofs/SeedMin.v, to which [seed_min_s] applies).
   For a non-commutative reduction this pins the payload completely as a function of the path.

   [seeded_node D reduce g1 n p] :=
     exists lp seed rp sd0 ds, p = assemble lp seed rp /\
       option_map n_data (nth_error g1 seed) = Some sd0 /\ datas g1 (verts lp ++ verts rp) = Some ds /\
       n_data n = fold_left reduce ds sd0 /\ NoDup (map fst p) /\ forall x, In x (map fst p) -> seed <= x.

   For the harness payload (colour, id list) with rpay_reduce = "keep the accumulator's colour, append the other's ids",
   [order_ok g n p] is literally the test that [chk_payload_order_node] (Check/RecompOrder.v) runs on the path p it gets
   from [node_path] (C09S_chk_payload_order_node_eq); C09S_payload_order_model proves it of the model's output on the
   model's own paths.

   The checker itself on the model's output (C09S_chk_payload_order_model): [node_path] - the greedy tiling of the result
   sequence by oriented input nodes, each found by find_link from the first k-mer of what remains - returns the model's
   path (C09S_node_path_complete, C09S_model_node_paths) provided no node end of the input graph is the reverse complement
   of the opposite end of another node: [cross_all g] := RecompOutEnds.cross_ok g (all node ids, censored ones included),
   the third clause of C03's [ends_ok]; it holds when stranded, under ends_ok (every graph compress_kmers builds; checked
   on every implementation graph by chk_graph_ok), and when every canonical k-mer occurs once in g.  The hypothesis is
   NECESSARY: C09S_chk_payload_order_needs_cross - a VALID graph on which the model's own (correct) output is rejected by
   chk_payload_order, because node_path, looking for a node that starts with the first k-mer ACG of ACGCAA, finds node 2
   (ACGG) instead of node 3 (GCGT) traversed flipped.  (The other checkers built on node_path - chk_maximal (b),
   chk_exts, chk_payload - reject that output for the same reason.) *)
From Coq Require Import NArith List Bool Arith.
From DBG Require Import Proofs.AbstractWalk Proofs.SeedMin.
From DBG Require Import Spec.Dna Spec.GraphIndex Packed.ExtsModel Algo.Compress Algo.GraphModel Algo.Recompress
  Spec.EdgeSpec Proofs.WalkProofs Check.RecompCheck Check.RecompLooseCheck Check.RecompOrder Proofs.RecompCheckProofs Proofs.RecompressProofs
  Proofs.RecompLoose Proofs.RecompLooseMain Proofs.RecompOutEnds Proofs.RecompSeedMin Proofs.RecompTile Proofs.RecompOrderComplete.
Import ListNotations.
Open Scope N_scope.

(* ---- the outer loop refines the struct walk ------------------------------------------------------------------------ *)
(* compress_s forgets to AbstractWalk.compress (the walk of C09_recompress_refines_walk) *)
Theorem C09S_compress_s_verts : forall (next : nat -> side -> option (nat * side)) order avail,
  map sverts (compress_s next order avail) = compress nat Nat.eq_dec next order avail.
Proof. exact compress_s_verts. Qed.
Print Assumptions C09S_compress_s_verts.

(* C09X_recompress_refines_walk at struct level: the result nodes are, one for one and in order, the (left path, seed,
   right path) triples of compress_s over 0..n-1 from the survivors, each built from exactly that decomposition *)
Theorem C09S_recompress_refines_struct : forall D reduce join K stranded, (forall a b, join a b = join b a) ->
  forall (g : graph D) censor,
  rvalid_loose D K stranded g ->
  exists g1 out r,
    restrict D K stranded g (survivors D g censor) = Some g1 /\ winv D K stranded g1 (survivors D g censor) /\
    compress_graph_paths D reduce join K stranded g censor = Some (out, map snd r) /\
    result_ok_s D reduce join K stranded g1 (survivors D g censor) r
      (compress_s (wnext D join K stranded g1 (survivors D g censor)) (seq 0 (length g)) (survivors D g censor)) /\
    pruned_of D K stranded (map fst r) None out.
Proof. exact recompress_struct_loose. Qed.
Print Assumptions C09S_recompress_refines_struct.

Theorem C09S_result_ok_s_result_ok : forall D reduce join K stranded (g : graph D) S r nodes,
  result_ok_s D reduce join K stranded g S r nodes ->
  result_ok D reduce join K stranded g S r (map sverts nodes).
Proof. exact result_ok_s_result_ok. Qed.
Print Assumptions C09S_result_ok_s_result_ok.

(* ---- the seed is the first (lowest-numbered) node of its path -------------------------------------------------------- *)
(* FULL: every payload type, reduction, join (symmetric), K, strandedness, valid input graph, censor list; the fold of
   C09_payload_fold and the minimality of the seed for one and the same decomposition, over the restricted graph g1 *)
Theorem C09_seed_is_first : forall D reduce join K stranded, (forall a b, join a b = join b a) ->
  forall (g : graph D) censor out paths,
  rvalid D K stranded g -> compress_graph_paths D reduce join K stranded g censor = Some (out, paths) ->
  exists g1, restrict D K stranded g (survivors D g censor) = Some g1 /\
    Forall2 (fun n p => exists lp seed rp sd0 ds, p = assemble lp seed rp /\
               option_map (n_data D) (nth_error g1 seed) = Some sd0 /\
               datas D g1 (verts nat lp ++ verts nat rp) = Some ds /\
               n_data D n = fold_left reduce ds sd0 /\
               NoDup (map fst p) /\
               forall x, In x (map fst p) -> (seed <= x)%nat) out paths.
Proof. exact seed_is_first_. Qed.
Print Assumptions C09_seed_is_first.

(* the same for loosely valid input graphs (dangling extension bits allowed) *)
Theorem C09X_seed_is_first : forall D reduce join K stranded, (forall a b, join a b = join b a) ->
  forall (g : graph D) censor out paths,
  rvalid_loose D K stranded g -> compress_graph_paths D reduce join K stranded g censor = Some (out, paths) ->
  exists g1, restrict D K stranded g (survivors D g censor) = Some g1 /\
    Forall2 (fun n p => exists lp seed rp sd0 ds, p = assemble lp seed rp /\
               option_map (n_data D) (nth_error g1 seed) = Some sd0 /\
               datas D g1 (verts nat lp ++ verts nat rp) = Some ds /\
               n_data D n = fold_left reduce ds sd0 /\
               NoDup (map fst p) /\
               forall x, In x (map fst p) -> (seed <= x)%nat) out paths.
Proof. exact seed_is_first_loose. Qed.
Print Assumptions C09X_seed_is_first.

(* read on the INPUT graph g itself (the restriction keeps the payloads) *)
Theorem C09X_seed_is_first_input : forall D reduce join K stranded, (forall a b, join a b = join b a) ->
  forall (g : graph D) censor out paths,
  rvalid_loose D K stranded g -> compress_graph_paths D reduce join K stranded g censor = Some (out, paths) ->
  Forall2 (fun n p => exists lp seed rp sd0 ds, p = assemble lp seed rp /\
               option_map (n_data D) (nth_error g seed) = Some sd0 /\
               datas D g (verts nat lp ++ verts nat rp) = Some ds /\
               n_data D n = fold_left reduce ds sd0 /\
               NoDup (map fst p) /\
               forall x, In x (map fst p) -> (seed <= x)%nat) out paths.
Proof. exact seed_is_first_input. Qed.
Print Assumptions C09X_seed_is_first_input.

(* ---- the harness payload: what chk_payload_order decides ------------------------------------------------------------- *)
(* the checker = node_path, then [order_ok] on the path found *)
Theorem C09S_chk_payload_order_node_eq : forall K stranded (g : graph rpay) (n : rnode),
  chk_payload_order_node K stranded g n =
  match node_path rpay K stranded g (n_seq rpay n) with Some p => order_ok g n p | None => false end.
Proof. exact chk_payload_order_node_eq. Qed.
Print Assumptions C09S_chk_payload_order_node_eq.

(* position of the smallest id of a path of distinct ids *)
Theorem C09S_min_pos_spec : forall (x0 : nat * dir) r s m d, NoDup (map fst (x0 :: r)) ->
  nth_error (x0 :: r) s = Some (m, d) -> (forall x, In x (map fst (x0 :: r)) -> (m <= x)%nat) ->
  min_pos r 1 (fst x0, 0%nat) = s.
Proof. exact min_pos_spec. Qed.
Print Assumptions C09S_min_pos_spec.

(* fold order + minimal seed, read with rpay_reduce: ids = ids(seed) ++ ids(left path away from the seed) ++ ids(right
   path), colour = the seed's, the seed being at the position of the smallest id *)
Theorem C09S_seeded_order_ok : forall (g : graph rpay) (n : rnode) p,
  seeded_node rpay rpay_reduce g n p -> order_ok g n p = true.
Proof. exact seeded_order_ok. Qed.
Print Assumptions C09S_seeded_order_ok.

(* the model's output passes the test of chk_payload_order on the model's own paths, which spell the result nodes in
   the INPUT graph (any symmetric join, any K, strandedness, loosely valid graph, censor list) *)
Theorem C09S_payload_order_model : forall K stranded (join : rpay -> rpay -> bool), (forall a b, join a b = join b a) ->
  forall (g : graph rpay) censor out paths,
  rvalid_loose rpay K stranded g ->
  compress_graph_paths rpay rpay_reduce join K stranded g censor = Some (out, paths) ->
  Forall2 (fun n p => sequence_of_path rpay K g p = Some (n_seq rpay n) /\ order_ok g n p = true) out paths.
Proof. exact payload_order_model. Qed.
Print Assumptions C09S_payload_order_model.

(* ---- non-vacuity ------------------------------------------------------------------------------------------------------ *)
(* K = 4, unstranded, always-true join; the loosely valid (not valid: dangling bits) graph ex_loose of Properties/C09.v with
   nodes 0 and 1 exchanged and distinct colours: node 0 = CCGTT, node 1 = AACCG (on its LEFT), node 2 = TCAAC (on its
   right, traversed flipped), node 3 isolated.  The seed of the first result node is node 0, in the MIDDLE of its path
   [1; 0; 2]: lp = [1], rp = [2]; payload = ((5,[10]) + (6,[11])) + (7,[12]) = (5, [10;11;12]): the seed's colour, the
   seed's ids first.  With node 0 censored nothing merges. *)
Definition ex_seed : graph rpay :=
  [ ([1;1;2;3;3], 65, (5,[10])); ([0;0;1;1;2], 148, (6,[11])); ([3;1;0;0;1], 72, (7,[12])); ([2;2;2;0;2;0], 72, (8,[13])) ].
Definition ex_seed_out : graph rpay := [ ([0;0;1;1;2;3;3;2;0], 0, (5,[10;11;12])); ([2;2;2;0;2;0], 0, (8,[13])) ].
Definition ex_seed_paths : list (list (nat * dir)) :=
  [ [(1%nat, DLeft); (0%nat, DLeft); (2%nat, DRight)]; [(3%nat, DLeft)] ].

Example C09S_nonvacuous :
  rvalid_loose rpay 4 false ex_seed /\
  compress_graph_paths rpay rpay_reduce (rpay_join 0) 4 false ex_seed None = Some (ex_seed_out, ex_seed_paths) /\
  ex_seed_paths = [ assemble [(1%nat, R)] 0 [(2%nat, R)]; assemble [] 3 [] ] /\
  compress_graph_paths rpay rpay_reduce (rpay_join 0) 4 false ex_seed (Some [0%nat]) =
    Some ([ ([0;0;1;1;2], 0, (6,[11])); ([3;1;0;0;1], 0, (7,[12])); ([2;2;2;0;2;0], 0, (8,[13])) ],
          [ [(1%nat, DLeft)]; [(2%nat, DLeft)]; [(3%nat, DLeft)] ]) /\
  chk_payload_order 4 false ex_seed ex_seed_out = true.
Proof.
  split; [apply rvalid_looseb_sound; vm_compute; reflexivity|].
  repeat split; vm_compute; reflexivity.
Qed.
Print Assumptions C09S_nonvacuous.

(* the theorems apply to it *)
Example C09S_nonvacuous_seed :
  Forall2 (seeded_node rpay rpay_reduce ex_seed) ex_seed_out ex_seed_paths /\
  Forall2 (fun n p => sequence_of_path rpay 4 ex_seed p = Some (n_seq rpay n) /\ order_ok ex_seed n p = true)
          ex_seed_out ex_seed_paths.
Proof.
  assert (Hj : forall a b, rpay_join 0 a b = rpay_join 0 b a) by (intros a b; reflexivity).
  destruct C09S_nonvacuous as (V & Hc & _). split.
  - exact (C09X_seed_is_first_input rpay rpay_reduce (rpay_join 0) 4 false Hj ex_seed None _ _ V Hc).
  - exact (C09S_payload_order_model 4 false (rpay_join 0) Hj ex_seed None _ _ V Hc).
Qed.
Print Assumptions C09S_nonvacuous_seed.

(* ---- the checker on the model's output: completeness of node_path ------------------------------------------------------ *)
(* the tiling finds any path whose consecutive oriented nodes overlap in K-1 bases and whose elements are what find_link
   answers on their first k-mers ([found]) *)
Theorem C09S_node_path_complete : forall D K stranded (g : graph D) p s, (1 <= K)%nat -> p <> [] ->
  (forall x, In x p -> (fst x < length g)%nat /\ (K <= length (oseq D g x))%nat) ->
  EdgeSpec.chain (seq_overlap K) (map (oseq D g) p) ->
  (forall x, In x p -> found D K stranded g x) ->
  sequence_of_path D K g p = Some s ->
  node_path D K stranded g s = Some p.
Proof. exact node_path_complete. Qed.
Print Assumptions C09S_node_path_complete.

Theorem C09S_node_path_seqs : forall D K stranded (g g' : graph D) s, g_seqs D g' = g_seqs D g ->
  node_path D K stranded g' s = node_path D K stranded g s.
Proof. exact node_path_seqs. Qed.
Print Assumptions C09S_node_path_seqs.

(* on the sequence of every result node of the model, node_path (run on the INPUT graph) returns the model's node path *)
Theorem C09S_model_node_paths : forall D reduce join K stranded, (forall a b, join a b = join b a) ->
  forall (g : graph D) censor out paths,
  rvalid_loose D K stranded g -> cross_all D K stranded g ->
  compress_graph_paths D reduce join K stranded g censor = Some (out, paths) ->
  Forall2 (fun n p => node_path D K stranded g (n_seq D n) = Some p) out paths.
Proof. exact model_node_paths. Qed.
Print Assumptions C09S_model_node_paths.

(* chk_payload_order accepts the model's own output: harness payload, non-commutative rpay_reduce, any symmetric join
   (in particular rpay_join mode), any K, strandedness, loosely valid input, censor list.  No hypothesis on the id lists
   carried by the input nodes is needed (they may be empty or overlap: the checker compares lists). *)
Theorem C09S_chk_payload_order_model : forall K stranded (join : rpay -> rpay -> bool), (forall a b, join a b = join b a) ->
  forall (g : graph rpay) censor out,
  rvalid_loose rpay K stranded g -> cross_all rpay K stranded g ->
  compress_graph rpay rpay_reduce join K stranded g censor = Some out ->
  chk_payload_order K stranded g out = true.
Proof. exact chk_payload_order_model. Qed.
Print Assumptions C09S_chk_payload_order_model.

(* where the hypothesis on the ends holds *)
Theorem C09S_cross_all_stranded : forall D K stranded (g : graph D), stranded = true -> cross_all D K stranded g.
Proof. exact cross_all_stranded. Qed.
Print Assumptions C09S_cross_all_stranded.

Theorem C09S_cross_all_of_ends_ok : forall D K stranded (g : graph D), ends_ok D K stranded g -> cross_all D K stranded g.
Proof. exact cross_all_of_ends_ok. Qed.
Print Assumptions C09S_cross_all_of_ends_ok.

Theorem C09S_cross_all_of_kmers : forall D K stranded (g : graph D),
  Forall (node_ok D K) g -> NoDup (surv_kmers D K stranded g (seq 0 (length g))) -> cross_all D K stranded g.
Proof. exact cross_all_of_kmers. Qed.
Print Assumptions C09S_cross_all_of_kmers.

(* non-vacuity: the example above meets the hypothesis, so the theorem (not a computation) yields the checker's verdict *)
Example C09S_nonvacuous_chk :
  cross_all rpay 4 false ex_seed /\
  (cross_all rpay 4 false ex_seed -> chk_payload_order 4 false ex_seed ex_seed_out = true).
Proof.
  destruct C09S_nonvacuous as (V & Hc & _). split.
  - apply C09S_cross_all_of_kmers; [apply V | apply nodupb_sound; vm_compute; reflexivity].
  - intro C. apply (C09S_chk_payload_order_model 4 false (rpay_join 0) (fun a b => eq_refl) ex_seed None ex_seed_out V C).
    unfold compress_graph. rewrite Hc. reflexivity.
Qed.
Print Assumptions C09S_nonvacuous_chk.

(* ---- the hypothesis is necessary ----------------------------------------------------------------------------------------- *)
(* K = 3, unstranded, harness spec mode 1 (the graph C09O_cross_graph of Properties/C09Out.v): VALID, but the left end ACG
   of node 2 (ACGG) is the reverse complement of the right end CGT of node 3 (GCGT).  The model merges node 3 (flipped) and
   node 0 into ACGCAA with payload (1,[0;3]) - seed 0, the smallest id, fold order as proved above - and the checker
   REJECTS this output: node_path finds no tiling of ACGCAA (it starts with node 2).  A false alarm of the checker, not a
   defect of the code under test; it cannot occur on graphs with C03's ends_ok. *)
Definition ex_cross : graph rpay :=
  [ ([2;1;0;0], 2, (1,[0])); ([3;3;0;1], 64, (1,[1])); ([0;1;2;2], 8, (2,[2])); ([2;1;2;3], 24, (1,[3])); ([2;3;0;0], 2, (3,[4])) ].
Example C09S_chk_payload_order_needs_cross :
  rvalid rpay 3 false ex_cross /\ rvalid_loose rpay 3 false ex_cross /\ ~ cross_all rpay 3 false ex_cross /\
  exists out paths, compress_graph_paths rpay rpay_reduce (rpay_join 1) 3 false ex_cross None = Some (out, paths) /\
    out = [ ([0;1;2;1;0;0], 8, (1,[0;3])); ([3;3;0;1], 64, (1,[1])); ([0;1;2;2], 8, (2,[2])); ([2;3;0;0], 2, (3,[4])) ] /\
    paths = [ [(3%nat, DRight); (0%nat, DLeft)]; [(1%nat, DLeft)]; [(2%nat, DLeft)]; [(4%nat, DLeft)] ] /\
    Forall2 (fun n p => sequence_of_path rpay 3 ex_cross p = Some (n_seq rpay n) /\ order_ok ex_cross n p = true) out paths /\
    node_path rpay 3 false ex_cross [0;1;2;1;0;0] = None /\
    chk_payload_order 3 false ex_cross out = false.
Proof.
  assert (V : rvalid rpay 3 false ex_cross) by (apply rvalidb_sound; vm_compute; reflexivity).
  assert (VL : rvalid_loose rpay 3 false ex_cross) by (apply (proj1 (RecompLoose.rvalid_iff_loose rpay 3 false ex_cross) V)).
  split; [exact V|]. split; [exact VL|]. split.
  { intro X.
    destruct (X eq_refl 2%nat 3%nat DLeft ([0;1;2;2], 8, (2,[2])) ([2;1;2;3], 24, (1,[3]))) as [E _];
      [vm_compute; auto 10 | vm_compute; auto 10 | reflexivity | reflexivity | vm_compute; reflexivity | discriminate E]. }
  eexists. eexists. split; [vm_compute; reflexivity|]. split; [reflexivity|]. split; [reflexivity|].
  split.
  { apply (C09S_payload_order_model 3 false (rpay_join 1)) with (censor := None);
      [intros a b; unfold rpay_join; cbn; apply N.eqb_sym | exact VL |].
    vm_compute. reflexivity. }
  split; vm_compute; reflexivity.
Qed.
Print Assumptions C09S_chk_payload_order_needs_cross.
