(* C06, graph half - strand symmetry of the finished graph when unstranded, strand separation when stranded.
   Statements only.  Spec notions in Check/PipelineCheck.v ([same_assembly], [assembly_of], see Properties/C04.v).

   FULL STATEMENT (not proved here):
     graph_rc_invariant : unstranded, every pipeline variant (direct / sharded / re-compressed), any subset of reads
       reverse-complemented: same_assembly (pipeline reads) (pipeline' (flip_lreads fs reads));
     stranded_exact     : stranded, every pipeline variant: the graph holds exactly the forward k-mers / links.
   PROVED (closed): on Layer S the retained k-mers, the links and the k-mer colours of a read set are invariant under
   reverse-complementing any subset of reads, hence so is [assembly_of]; the assembly of a read set is unique; so two
   graphs that ARE the assemblies of R and of the flipped R are the same assembly ([graph_rc_invariant_partial]); in
   stranded mode [graph_exact] says the node k-mers are exactly the forward k-mers meeting the threshold (each once) and
   the links exactly the forward (K+1)-mers between retained k-mers.  MISSING: that each pipeline variant's output is the
   assembly of its input (C01/C02/C03/C09) - decided per run by the verified checker chk_assembly on every graph. *)
From Coq Require Import NArith List Bool Arith Permutation.
From DBG Require Import Spec.Dna Algo.KmerHist Algo.Pipeline Check.GraphCheck Check.PipelineCheck
  Proofs.PipelineCheckProofs Proofs.GraphRcProofs Proofs.PipelineProofs.
Import ListNotations.
Open Scope N_scope.

(* Layer S: what the graph has to contain is invariant under flipping any subset of reads *)
Theorem C06_retained_flip : forall K thr fs (reads : list lread), Forall (fun r => wf_dna (fst r)) reads ->
  retained K false thr (map fst (flip_lreads fs reads)) = retained K false thr (map fst reads).
Proof. exact retained_flip. Qed.
Theorem C06_spec_links_flip : forall K thr fs (reads : list lread), Forall (fun r => wf_dna (fst r)) reads ->
  forall w, In w (spec_links K false thr (map fst (flip_lreads fs reads))) <-> In w (spec_links K false thr (map fst reads)).
Proof. exact spec_links_flip. Qed.
Theorem C06_kmer_colour_flip : forall K fs (lreads : list lread) x, Forall (fun r => wf_dna (fst r)) lreads ->
  kmer_colour K false (flip_lreads fs lreads) x = kmer_colour K false lreads x.
Proof. exact kmer_colour_flip. Qed.
Theorem C06_assembly_of_flip : forall K thr mode fs (lreads : list lread) g, Forall (fun r => wf_dna (fst r)) lreads ->
  assembly_of K false thr mode (flip_lreads fs lreads) g <-> assembly_of K false thr mode lreads g.
Proof. exact assembly_of_flip. Qed.

(* partition, payloads and links are unchanged (the links are canonical (K+1)-mers: for a palindromic k-mer x the
   links x.b and comp(b).x coincide, i.e. its two sides are identified) *)
Theorem C06_graph_rc_invariant_partial : forall K thr mode fs (lreads : list lread) g g',
  Forall (fun r => wf_dna (fst r)) lreads ->
  assembly_of K false thr mode lreads g -> assembly_of K false thr mode (flip_lreads fs lreads) g' ->
  same_assembly K false mode g g'.
Proof. exact graph_rc_invariant_partial. Qed.
Theorem C06_chk_assembly_rc : forall K thr mode fs (lreads : list lread) g g',
  Forall (fun r => wf_dna (fst r)) lreads ->
  chk_assembly K false thr mode lreads g = true -> chk_assembly K false thr mode (flip_lreads fs lreads) g' = true ->
  same_assembly K false mode g g'.
Proof. exact chk_assembly_rc. Qed.

(* stranded: a k-mer and its reverse complement are never identified - the graph's k-mers are exactly the forward
   k-mers with at least thr forward occurrences, each once, and its links exactly the forward (K+1)-mers of the reads
   between two k-mers of the graph *)
Theorem C06_stranded_exact_graph : forall K thr reads g, graph_exact K true thr reads g ->
  NoDup (graph_kmers K true g) /\
  (forall x, In x (graph_kmers K true g) <->
             In x (flat_map (kmers K) reads) /\ thr <= N.of_nat (length (filter (dna_eqb x) (flat_map (kmers K) reads)))) /\
  (forall w, In w (graph_links K true g) <->
             In w (flat_map (kmers (S K)) reads) /\ In (firstn K w) (graph_kmers K true g) /\ In (skipn 1 w) (graph_kmers K true g)).
Proof. exact stranded_exact_graph. Qed.
Theorem C06_chk_graph_exact_sound : forall K st thr reads g, chk_graph_exact K st thr reads g = true -> graph_exact K st thr reads g.
Proof. exact chk_graph_exact_sound. Qed.

(* non-vacuity: K = 4 (even), reads GTTCGAACG, CGTTCGAT contain the palindrome TCGA; the second read is flipped.
   The direct model pipeline on R and the sharded one (P = 2, three shards) on the flipped R give graphs that differ as
   lists, each is the assembly of its input, and they are the same assembly.  Stranded: the graph of GTTCGAACG holds
   GTTC but not its reverse complement GAAC ... which IS a forward k-mer here, so take the read GTTCGA instead. *)
Definition ex6_reads : list lread := [([2;3;3;1;2;0;0;1;2], 0); ([1;2;3;3;1;2;0;3], 1)].
Definition ex6_flips : list bool := [false; true].
Definition ex6_order : list dna :=
  Eval vm_compute in
    match filter_set 4 false 1 (whole_reads ex6_reads) with
    | Some (T, _) => map (Compress.e_key pay) (sort_entries T) | None => [] end.
Definition ex6_orders : list (list dna) :=
  Eval vm_compute in
    match pieces_of 64 4 2 None true (flip_lreads ex6_flips ex6_reads) with
    | Some ps => map (fun b => match filter_set 4 false 1 (shard_seqs ps b) with
                               | Some (T, _) => rev (map (Compress.e_key pay) (sort_entries T)) | None => [] end) (buckets_of ps)
    | None => []
    end.
Example C06_graph_nonvacuous :
  exists bs gs g g',
    direct 4 false 1 0 0 ex6_reads ex6_order = Some g /\
    sharded 64 4 2 None false 1 0 2 (flip_lreads ex6_flips ex6_reads) ex6_orders = Some (bs, gs, g') /\
    length bs = 3%nat /\ g <> g' /\
    existsb (fun n => existsb is_palindrome (kmers 4 (nd_seq n))) g = true /\
    chk_assembly 4 false 1 0 ex6_reads g = true /\
    chk_assembly 4 false 1 0 (flip_lreads ex6_flips ex6_reads) g' = true /\
    chk_same_assembly 4 false 0 g g' = true.
Proof.
  do 4 eexists. split; [vm_compute; reflexivity|]. split; [vm_compute; reflexivity|].
  repeat split; try (vm_compute; reflexivity). vm_compute. intros H. discriminate H.
Qed.
Definition ex6s_order : list dna :=
  Eval vm_compute in
    match filter_set 4 true 1 (whole_reads [([2;3;3;1;2;0], 0)]) with
    | Some (T, _) => map (Compress.e_key pay) (sort_entries T) | None => [] end.
Example C06_stranded_nonvacuous :
  exists g, direct 4 true 1 0 0 [([2;3;3;1;2;0], 0)] ex6s_order = Some g /\
    chk_graph_exact 4 true 1 [[2;3;3;1;2;0]] g = true /\
    In [2;3;3;1] (graph_kmers 4 true g) /\ ~ In (rc [2;3;3;1]) (graph_kmers 4 true g).
Proof.
  eexists. split; [vm_compute; reflexivity|]. split; [vm_compute; reflexivity|]. split; [vm_compute; auto|].
  vm_compute. intros H. repeat (destruct H as [H|H]; [discriminate H|]). exact H.
Qed.

Print Assumptions C06_retained_flip.
Print Assumptions C06_spec_links_flip.
Print Assumptions C06_kmer_colour_flip.
Print Assumptions C06_assembly_of_flip.
Print Assumptions C06_graph_rc_invariant_partial.
Print Assumptions C06_chk_assembly_rc.
Print Assumptions C06_stranded_exact_graph.
Print Assumptions C06_chk_graph_exact_sound.
Print Assumptions C06_graph_nonvacuous.
Print Assumptions C06_stranded_nonvacuous.

(* ==== the DIRECT pipeline (work package e2e): no proviso left ====================================================== *)
(* C06_graph_rc_invariant_direct: unstranded, K >= 4, reads over {A,C,G,T}, every threshold and join mode, any subset of
   the reads reverse-complemented, any two duplicate-free iteration orders of the two hash tables: the graphs the direct
   model pipeline builds from the reads and from the flipped reads are the same assembly (same partition of the canonical
   k-mers into nodes, same payloads per node, same canonical link set - the two sides of a palindromic k-mer identified).
   From C04_direct_assembly (Properties/C04.v) + C06_assembly_of_flip + C04_assembly_unique.  [NoDup order]: a guard of
   the MODEL only (the order is an oracle input; the real table iterates every key once).
   STILL MISSING for the full C06 graph statement: the sharded and re-compressed pipeline variants. *)
From DBG Require Import Proofs.E2eDirect Proofs.E2eCorollaries.
Local Open Scope nat_scope.

Theorem C06_graph_rc_invariant_direct : forall K thr mode fs (lreads : list lread) order order' g g',
  4 <= K -> Forall (fun r => wf_dna (fst r)) lreads -> NoDup order -> NoDup order' ->
  direct K false thr mode 0 lreads order = Some g ->
  direct K false thr mode 0 (flip_lreads fs lreads) order' = Some g' ->
  same_assembly K false mode g g'.
Proof. exact graph_rc_invariant_direct. Qed.
(* both runs succeed whenever the orders list the retained k-mers (the two tables have the same keys) *)
Theorem C06_graph_rc_invariant_direct_total : forall K thr mode fs (lreads : list lread) order order',
  4 <= K -> Forall (fun r => wf_dna (fst r)) lreads ->
  Permutation order (retained K false thr (map fst lreads)) -> Permutation order' (retained K false thr (map fst lreads)) ->
  exists g g', direct K false thr mode 0 lreads order = Some g /\
               direct K false thr mode 0 (flip_lreads fs lreads) order' = Some g' /\
               same_assembly K false mode g g'.
Proof. exact graph_rc_invariant_direct_total. Qed.
(* stranded_exact for the direct pipeline: the graph holds exactly the forward k-mers with >= thr forward occurrences,
   each once, and exactly the forward (K+1)-mers of the reads between two of them *)
Theorem C06_stranded_exact_direct : forall K thr mode (lreads : list lread) order g,
  4 <= K -> Forall (fun r => wf_dna (fst r)) lreads -> NoDup order ->
  direct K true thr mode 0 lreads order = Some g ->
  NoDup (graph_kmers K true g) /\
  (forall x, In x (graph_kmers K true g) <->
             In x (flat_map (kmers K) (map fst lreads)) /\
             (thr <= N.of_nat (length (filter (dna_eqb x) (flat_map (kmers K) (map fst lreads)))))%N) /\
  (forall w, In w (graph_links K true g) <->
             In w (flat_map (kmers (S K)) (map fst lreads)) /\ In (firstn K w) (graph_kmers K true g) /\ In (skipn 1 w) (graph_kmers K true g)).
Proof. exact stranded_exact_direct. Qed.

(* non-vacuity: the reads of the example above (palindrome TCGA), second read flipped, ascending order for the first
   run and descending order for the second: both runs succeed, the graphs differ as lists *)
Definition ex6_order' : list dna := Eval vm_compute in rev ex6_order.
Example C06_graph_direct_nonvacuous :
  Forall (fun r => wf_dna (fst r)) ex6_reads /\
  Permutation ex6_order (retained 4 false 1 (map fst ex6_reads)) /\ Permutation ex6_order' (retained 4 false 1 (map fst ex6_reads)) /\
  exists g g', direct 4 false 1 0 0 ex6_reads ex6_order = Some g /\
               direct 4 false 1 0 0 (flip_lreads ex6_flips ex6_reads) ex6_order' = Some g' /\ g <> g'.
Proof.
  split; [repeat constructor; cbv; auto|].
  assert (E : ex6_order = retained 4 false 1 (map fst ex6_reads)) by (vm_compute; reflexivity).
  split; [rewrite E; reflexivity|]. split; [unfold ex6_order'; rewrite <- E; symmetry; apply Permutation_rev|].
  do 2 eexists. split; [vm_compute; reflexivity|]. split; [vm_compute; reflexivity|]. vm_compute. intro H. discriminate H.
Qed.

Print Assumptions C06_graph_rc_invariant_direct.
Print Assumptions C06_graph_rc_invariant_direct_total.
Print Assumptions C06_stranded_exact_direct.
Print Assumptions C06_graph_direct_nonvacuous.

(* ==== the SHARDED pipeline (work package e2e-sharded): no proviso left ============================================= *)
(* C06_graph_rc_invariant_sharded: unstranded, within the guards of C04_sharded_assembly, any subset of the reads
   reverse-complemented (the pieces, buckets, shard tables and shard graphs of the two runs may all differ), any
   duplicate-free iteration orders of all shard tables: the two graphs are the same assembly.  From C04_sharded_assembly
   + C06_assembly_of_flip + C04_assembly_unique.  Also across pipelines (sharded on the reads, direct on the flipped
   reads), and stranded_exact for the sharded pipeline. *)
From DBG Require Import Proofs.MspProofs Proofs.ShardProofs Proofs.E2eSharded Proofs.E2eShardedCorollaries.
Local Open Scope nat_scope.

Theorem C06_graph_rc_invariant_sharded : forall max_len K P perm thr mode variant fs (lreads : list lread) orders orders' bs gs g bs' gs' g',
  params_ok max_len K P -> perm_ok P perm -> 4 <= K -> Forall lread_ok lreads ->
  Forall (@NoDup dna) orders -> Forall (@NoDup dna) orders' -> variant <> 1%N ->
  sharded max_len K P perm false thr mode variant lreads orders = Some (bs, gs, g) ->
  sharded max_len K P perm false thr mode variant (flip_lreads fs lreads) orders' = Some (bs', gs', g') ->
  same_assembly K false mode g g'.
Proof. exact graph_rc_invariant_sharded. Qed.
Theorem C06_graph_rc_invariant_sharded_direct : forall max_len K P perm thr mode variant fs (lreads : list lread) orders order' bs gs g g',
  params_ok max_len K P -> perm_ok P perm -> 4 <= K -> Forall lread_ok lreads ->
  Forall (@NoDup dna) orders -> NoDup order' -> variant <> 1%N ->
  sharded max_len K P perm false thr mode variant lreads orders = Some (bs, gs, g) ->
  direct K false thr mode 0 (flip_lreads fs lreads) order' = Some g' ->
  same_assembly K false mode g g'.
Proof. exact graph_rc_invariant_sharded_direct. Qed.
Theorem C06_stranded_exact_sharded : forall max_len K P perm thr mode variant (lreads : list lread) orders bs gs g,
  params_ok max_len K P -> perm_ok P perm -> 4 <= K -> Forall lread_ok lreads -> Forall (@NoDup dna) orders -> variant <> 1%N ->
  sharded max_len K P perm true thr mode variant lreads orders = Some (bs, gs, g) ->
  NoDup (graph_kmers K true g) /\
  (forall x, In x (graph_kmers K true g) <->
             In x (flat_map (kmers K) (map fst lreads)) /\
             (thr <= N.of_nat (length (filter (dna_eqb x) (flat_map (kmers K) (map fst lreads)))))%N) /\
  (forall w, In w (graph_links K true g) <->
             In w (flat_map (kmers (S K)) (map fst lreads)) /\ In (firstn K w) (graph_kmers K true g) /\ In (skipn 1 w) (graph_kmers K true g)).
Proof. exact stranded_exact_sharded. Qed.
Print Assumptions C06_graph_rc_invariant_sharded.
Print Assumptions C06_graph_rc_invariant_sharded_direct.
Print Assumptions C06_stranded_exact_sharded.

(* non-vacuity: the reads of the example above (palindrome TCGA), sharded (P = 2) on the reads and on the reads with the
   second one flipped: the guards hold, both runs succeed (thr = 1), the graphs differ as lists *)
Definition ex6_orders0 : list (list dna) :=
  Eval vm_compute in
    match pieces_of 64 4 2 None true ex6_reads with
    | Some ps => map (fun b => match filter_set 4 false 1 (shard_seqs ps b) with
                               | Some (T, _) => map (Compress.e_key pay) (sort_entries T) | None => [] end) (buckets_of ps)
    | None => []
    end.
Example C06_graph_sharded_nonvacuous :
  params_ok 64%N 4 2 /\ perm_ok 2 None /\ Forall lread_ok ex6_reads /\
  Forall (@NoDup dna) ex6_orders0 /\ Forall (@NoDup dna) ex6_orders /\
  exists bs gs g bs' gs' g',
    sharded 64 4 2 None false 1 0 2 ex6_reads ex6_orders0 = Some (bs, gs, g) /\
    sharded 64 4 2 None false 1 0 2 (flip_lreads ex6_flips ex6_reads) ex6_orders = Some (bs', gs', g') /\ g <> g'.
Proof.
  split; [repeat split; cbv; auto; discriminate|]. split; [exact I|]. split; [repeat constructor; cbv; auto|].
  split; [repeat constructor; cbn; intuition discriminate|]. split; [repeat constructor; cbn; intuition discriminate|].
  do 6 eexists. split; [vm_compute; reflexivity|]. split; [vm_compute; reflexivity|]. vm_compute. intro H. discriminate H.
Qed.
Print Assumptions C06_graph_sharded_nonvacuous.
