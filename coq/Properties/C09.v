(* C09 - Graph re-compression and node censoring are exact.  Statements only.

   Model: Algo/Recompress.v ([compress_graph_paths] = compress_graph of src/compression.rs returning, besides the new
   graph, the node path of every new node, which the Rust code computes and drops; [compress_graph] is its first
   component).  Spec notions: Check/RecompCheck.v.
     [rvalid g]          validity of the input graph: node sequences are DNA of length >= K >= 1 and extension bytes;
                         NoDup left ends, NoDup right ends; a palindromic k-mer occurs only as a node of its own
                         (unstranded); every extension resolves to a node end; extensions are symmetric, where the side
                         on which a palindromic single-k-mer node stores the return extension and the side of such a node
                         reported by the search are left free (the two sides of such a node are identified).
     [survivors g c]     the non-censored node ids; [restrict g S] = fix_exts(Some S): an extension is kept iff it resolves
                         to a node of S.
     [rnext g x d]       node-level mergeability = the static conditions of try_extend_node: exactly one extension on side d,
                         not a palindromic single-k-mer node, the k-mer reached is not a palindrome (unstranded), it is an
                         end of node y entered through side t, join_test holds, y has exactly one extension on side t.
   [join] must be symmetric (both shipped predicates are).  All theorems are for every payload type D, reduction,
   K, strandedness, input graph and censor list (repeats and out-of-range ids allowed). *)
From Coq Require Import NArith List Bool Arith Permutation.
From DBG Require Import Spec.Dna Spec.GraphIndex Packed.ExtsModel Algo.Compress Algo.GraphModel Algo.Recompress
  Check.RecompCheck Proofs.AbstractWalk Proofs.RecompCheckProofs Proofs.RecompressProofs Proofs.RecompIdem.
Import ListNotations.
Open Scope N_scope.

(* ---- instantiation obligations of the generic walk (DESIGN A.1) ------------------------------------------- *)

(* (i) On a graph satisfying the walk invariant, try_extend_node returns Unique exactly when the static conditions
   hold ([rnext] = Some) AND the target is still available; otherwise Terminal with the current node's extensions
   on that side.  In particular none of its panics ("No kmer", assert!(consistent), "unreachable", expect) is
   reachable. *)
Theorem C09_try_extend_refines : forall D join K stranded (g : graph D) S avail x d n,
  winv D K stranded g S -> In x S -> nth_error g x = Some n ->
  try_extend_node D join K stranded g avail x d =
    match rnext D join K stranded g x d with
    | Some (y, t) =>
        if mem_nat y avail
        then NUnique y (dflip t) (e_single_dir (match nth_error g y with Some m => n_exts D m | None => 0 end)
                                               (dirb (dflip t)))
        else NTerminal (e_single_dir (n_exts D n) (dirb d))
    | None => NTerminal (e_single_dir (n_exts D n) (dirb d))
    end.
Proof. exact try_extend_spec. Qed.
Print Assumptions C09_try_extend_refines.

(* (ii) the static step relation is symmetric *)
Theorem C09_next_symmetric : forall D join K stranded, (forall a b, join a b = join b a) ->
  forall (g : graph D) S x d y t,
  winv D K stranded g S -> In x S -> rnext D join K stranded g x d = Some (y, t) ->
  rnext D join K stranded g y t = Some (x, d).
Proof. exact rnext_sym. Qed.
Print Assumptions C09_next_symmetric.

(* the first step of compress_graph, fix_exts(Some(available)), turns a valid input graph into one satisfying the
   walk invariant w.r.t. the survivors (extensions of survivors are symmetric and lead to survivors only) *)
Theorem C09_restrict_invariant : forall D K stranded (g g1 : graph D) S,
  rvalid D K stranded g -> (forall x, In x S -> (x < length g)%nat) ->
  restrict D K stranded g S = Some g1 -> winv D K stranded g1 S.
Proof. exact restrict_winv. Qed.
Print Assumptions C09_restrict_invariant.

(* ---- compress_graph refines AbstractWalk ------------------------------------------------------------------- *)
(* On every valid graph compress_graph returns (no panic, no fuel exhaustion), and the vertex lists of its node paths
   are exactly the nodes of AbstractWalk.compress run with next = the static conditions of try_extend_node
   (restricted to surviving nodes), order 0..n-1, initial availability = the survivors.  Each result node is the
   spelling (sequence_of_path) of its path rev(left path flipped) ++ seed ++ right path, carries the payload fold and
   the terminal extensions of its two end nodes, complemented when traversed flipped; the final fix_exts(None) only
   removes extension bits. *)
Theorem C09_recompress_refines_walk : forall D reduce join K stranded, (forall a b, join a b = join b a) ->
  forall (g : graph D) censor,
  rvalid D K stranded g ->
  exists g1 out r,
    restrict D K stranded g (survivors D g censor) = Some g1 /\ winv D K stranded g1 (survivors D g censor) /\
    compress_graph_paths D reduce join K stranded g censor = Some (out, map snd r) /\
    result_ok D reduce join K stranded g1 (survivors D g censor) r
      (compress nat Nat.eq_dec (wnext D join K stranded g1 (survivors D g censor)) (seq 0 (length g))
                (survivors D g censor)) /\
    pruned_of D K stranded (map fst r) None out.
Proof. exact recompress_refines_walk_. Qed.
Print Assumptions C09_recompress_refines_walk.

(* ---- partition --------------------------------------------------------------------------------------------- *)
(* Every non-censored input node is used in exactly one result node, and no other node is used.
   FULL STATEMENT of the property's k-mer clause (not proved here, hence _partial):
     kmers_exact D K stranded g censor out
   i.e. Permutation (canonical k-mers of out) (canonical k-mers of the non-censored nodes of g) /\ NoDup.
   It follows from this theorem, C09_recompress_nodes (n_seq = sequence_of_path of the node path) and the C03 lemma
   path_spelling (k-mers of sequence_of_path p = concatenation of the k-mers of the oriented nodes of p, for a path whose
   consecutive nodes overlap in K-1 bases), which is not available in this work package.  The k-mer clause itself is
   decided on every implementation output by the verified checker chk.c09.kmers. *)
Theorem C09_recompress_kmers_partial : forall D reduce join K stranded, (forall a b, join a b = join b a) ->
  forall (g : graph D) censor out paths,
  rvalid D K stranded g -> compress_graph_paths D reduce join K stranded g censor = Some (out, paths) ->
  length out = length paths /\
  NoDup (concat (map (map fst) paths)) /\
  forall x, In x (concat (map (map fst) paths)) <->
            (x < length g)%nat /\ match censor with Some c => ~ In x c | None => True end.
Proof. exact recompress_partition. Qed.
Print Assumptions C09_recompress_kmers_partial.

(* ---- maximality -------------------------------------------------------------------------------------------- *)
(* No mergeable link of the restricted input graph leaves a result node: if x lies in a result node and x could be
   merged through side d with w, then w lies in the same result node (via AbstractWalk.compress_maximal). *)
Theorem C09_recompress_maximal : forall D reduce join K stranded, (forall a b, join a b = join b a) ->
  forall (g : graph D) censor out paths,
  rvalid D K stranded g -> compress_graph_paths D reduce join K stranded g censor = Some (out, paths) ->
  exists g1, restrict D K stranded g (survivors D g censor) = Some g1 /\
    forall p, In p paths -> forall x d w t,
      In x (map fst p) -> rnext D join K stranded g1 x d = Some (w, t) -> In w (map fst p).
Proof. exact recompress_maximal_. Qed.
Print Assumptions C09_recompress_maximal.

(* ... and conversely every step inside a result node is a sole mutual link between two distinct surviving nodes:
   the model's output satisfies the Prop that chk.c09.maximal (b) decides on the implementation's output. *)
Theorem C09_recompress_merged_ok : forall D reduce join K stranded, (forall a b, join a b = join b a) ->
  forall (g : graph D) censor out paths,
  rvalid D K stranded g -> compress_graph_paths D reduce join K stranded g censor = Some (out, paths) ->
  exists g1, restrict D K stranded g (survivors D g censor) = Some g1 /\
             Forall (merged_ok D join K stranded g1 (survivors D g censor)) out.
Proof. exact recompress_merged_ok. Qed.
Print Assumptions C09_recompress_merged_ok.

(* ---- no dangling extension (no hypothesis on the input at all) ------------------------------------------------ *)
Theorem C09_no_dangling_exts : forall D reduce join K stranded (g : graph D) censor out paths,
  compress_graph_paths D reduce join K stranded g censor = Some (out, paths) -> no_dangling D K stranded out.
Proof. exact no_dangling_exts_. Qed.
Print Assumptions C09_no_dangling_exts.

(* ---- payload ------------------------------------------------------------------------------------------------- *)
(* the payload of a result node is fold_left reduce over the payloads of exactly its path's nodes, in the order
   seed, left path (walking away from the seed), right path *)
Theorem C09_payload_fold : forall D reduce join K stranded, (forall a b, join a b = join b a) ->
  forall (g : graph D) censor out paths,
  rvalid D K stranded g -> compress_graph_paths D reduce join K stranded g censor = Some (out, paths) ->
  exists g1, restrict D K stranded g (survivors D g censor) = Some g1 /\
    Forall2 (fun n p => exists lp seed rp sd0 ds, p = assemble lp seed rp /\
               option_map (n_data D) (nth_error g1 seed) = Some sd0 /\
               datas D g1 (verts nat lp ++ verts nat rp) = Some ds /\
               n_data D n = fold_left reduce ds sd0) out paths.
Proof. exact payload_fold_. Qed.
Print Assumptions C09_payload_fold.

(* ---- sequences and terminal extensions ------------------------------------------------------------------------ *)
(* Every result node spells its path; its extension bits are among the (oriented) terminal extensions of the two end
   nodes.  FULL STATEMENT for the extensions (not proved, hence the inclusion only): equality,
     exts_exact D K stranded g censor out
   (no surviving adjacency is lost by the final fix_exts(None)); it needs that the end k-mers of result nodes are
   exactly the unmerged ends of surviving nodes (spelling).  Decided on every implementation output by chk.c09.exts. *)
Theorem C09_recompress_nodes_partial : forall D reduce join K stranded, (forall a b, join a b = join b a) ->
  forall (g : graph D) censor out paths,
  rvalid D K stranded g -> compress_graph_paths D reduce join K stranded g censor = Some (out, paths) ->
  exists g1, restrict D K stranded g (survivors D g censor) = Some g1 /\
             Forall2 (node_of_path D reduce join K stranded g1) out paths.
Proof. exact recompress_nodes. Qed.
Print Assumptions C09_recompress_nodes_partial.

(* ---- idempotence and the singleton route ---------------------------------------------------------------------- *)
(* Idempotence, FULL for the model and stronger than the property asks: a valid graph in which no two distinct nodes are
   mergeable is a FIXED POINT of compress_graph without censoring - same nodes, same order, same orientation, same
   extension bytes, same payloads (so in particular same_nodes K stranded g out).  On the implementation the weaker,
   order/orientation/rotation-insensitive [same_nodes] is decided by chk.c09.idempotent (sound, below) for every output
   re-compressed once more, and the exact model/implementation comparison covers the identity. *)
Theorem C09_recompress_idempotent : forall D reduce join K stranded, (forall a b, join a b = join b a) ->
  forall (g : graph D),
  rvalid D K stranded g ->
  (forall x d y t, rnext D join K stranded g x d = Some (y, t) -> y = x) ->
  compress_graph D reduce join K stranded g None = Some g.
Proof. exact recompress_idempotent_full. Qed.
Print Assumptions C09_recompress_idempotent.

(* singleton_route, FULL STATEMENT (not proved at model level):
     well-formed table T -> compress_graph (one node per entry of T) None = Some a -> compress_kmers T = Some b ->
     same_partition K stranded a b
   It needs C02 same_node_iff for compress_kmers (another work package) next to C09_recompress_maximal.  It is decided on
   every generated case (with and without censoring, against remove_censored_exts + compress_kmers of the surviving
   table) by the verified checker chk.c09.singleton_route, whose soundness is the _partial theorem below. *)
Theorem C09_chk_idempotent_sound : forall K stranded (a b : graph rpay),
  chk_same_nodes K stranded a b = true -> same_nodes K stranded a b.
Proof. exact chk_same_nodes_sound. Qed.
Print Assumptions C09_chk_idempotent_sound.

Theorem C09_singleton_route_partial : forall K stranded (a b : graph rpay),
  chk_same_partition K stranded a b = true -> same_partition K stranded a b.
Proof. exact chk_same_partition_sound. Qed.
Print Assumptions C09_singleton_route_partial.

(* ---- soundness of the boolean checkers that are run on the implementation's outputs -------------------------- *)
Theorem C09_chk_valid_input_sound : forall D K stranded (g : graph D),
  rvalidb D K stranded g = true -> rvalid D K stranded g.
Proof. exact rvalidb_sound. Qed.
Print Assumptions C09_chk_valid_input_sound.

Theorem C09_chk_kmers_sound : forall D K stranded (g : graph D) censor out,
  chk_kmers D K stranded g censor out = true -> kmers_exact D K stranded g censor out.
Proof. exact chk_kmers_sound. Qed.
Print Assumptions C09_chk_kmers_sound.

Theorem C09_chk_maximal_sound : forall D join K stranded (g : graph D) censor out,
  chk_maximal D join K stranded g censor out = true -> maximal_ok D join K stranded g censor out.
Proof. exact chk_maximal_sound. Qed.
Print Assumptions C09_chk_maximal_sound.

Theorem C09_chk_exts_sound : forall D K stranded (g : graph D) censor out,
  chk_exts D K stranded g censor out = true -> exts_exact D K stranded g censor out.
Proof. exact chk_exts_sound. Qed.
Print Assumptions C09_chk_exts_sound.

Theorem C09_chk_no_dangling_sound : forall D K stranded (out : graph D),
  chk_no_dangling D K stranded out = true -> no_dangling D K stranded out.
Proof. exact chk_no_dangling_sound. Qed.
Print Assumptions C09_chk_no_dangling_sound.

Theorem C09_chk_payload_sound : forall K stranded (g out : graph rpay),
  chk_payload K stranded g out = true -> Forall (payload_ok K g) out.
Proof. exact chk_payload_sound. Qed.
Print Assumptions C09_chk_payload_sound.

(* ---- non-vacuity ------------------------------------------------------------------------------------------------ *)
(* K = 4, unstranded, always-true join: eight nodes, among them the palindromic single-k-mer nodes CATG (4) and AATT
   (5).  The graph is valid; censoring nodes 4 and 6 lets ATGAC (0) and ATGGTC (3, traversed flipped: GACCAT) merge
   into ATGACCAT with payload ids [0;3] and no extensions left; CCCC loses the two extensions that led to node 6. *)
Definition ex_g : graph rpay :=
  [ ([0;3;2;0;1], 34, (1,[0])); ([1;1;3;3;2;1;1;0;0;3;0;0;3], 128, (0,[1])); ([1;1;1;1], 102, (0,[2]));
    ([0;3;2;2;3;1], 82, (1,[3])); ([1;0;3;2], 72, (0,[4])); ([0;0;3;3], 8, (0,[5])); ([1;1;1;2;0;1], 34, (1,[6]));
    ([2;1;1;1], 32, (0,[7])) ].
Example C09_nonvacuous :
  rvalid rpay 4 false ex_g /\
  compress_graph_paths rpay rpay_reduce (rpay_join 0) 4 false ex_g (Some [4; 6]%nat) =
    Some ([ ([0;3;2;0;1;1;0;3], 0, (1,[0;3])); ([1;1;3;3;2;1;1;0;0;3;0;0;3], 128, (0,[1])); ([1;1;1;1], 38, (0,[2]));
            ([0;0;3;3], 8, (0,[5])); ([2;1;1;1], 32, (0,[7])) ],
          [ [(0%nat, DLeft); (3%nat, DRight)]; [(1%nat, DLeft)]; [(2%nat, DLeft)]; [(5%nat, DLeft)]; [(7%nat, DLeft)] ]).
Proof. split; [apply rvalidb_sound; vm_compute; reflexivity | vm_compute; reflexivity]. Qed.
Print Assumptions C09_nonvacuous.

(* ==== composition with C03 (work package compose1) ============================================================= *)
From DBG Require Import Proofs.RecompKmers.

(* ---- k-mer level, FULL ------------------------------------------------------------------------------------------ *)
(* The k-mers of compress_graph's result are exactly the k-mers of the non-censored input nodes (canonical forms when
   unstranded), as MULTISETS, for every valid graph and censor list.  Consequently, as soon as the surviving input nodes
   carry each of their k-mers once (every graph built from a k-mer set does; [rvalid] itself only asks for distinct node
   ENDS), each k-mer occurs exactly once in the result: [kmers_exact], the Prop decided by chk.c09.kmers.
   Proof: node partition (C09_recompress_kmers_partial) + n_seq = sequence_of_path of the node path
   (C09_recompress_nodes_partial) + C03_path_spelling, after showing that a node path of compress_graph - consecutive
   nodes joined by sole mutual links - is a valid walk of the restricted graph in C03's sense; in stranded graphs a node
   path never changes strand, in unstranded graphs canon (rc x) = canon x. *)
Theorem C09_recompress_kmers : forall D reduce join K stranded, (forall a b, join a b = join b a) ->
  forall (g : graph D) censor out paths,
  rvalid D K stranded g -> compress_graph_paths D reduce join K stranded g censor = Some (out, paths) ->
  Permutation (graph_kmers D K stranded out) (surv_kmers D K stranded g (survivors D g censor)) /\
  (NoDup (surv_kmers D K stranded g (survivors D g censor)) -> kmers_exact D K stranded g censor out).
Proof. exact recompress_kmers_exact. Qed.
Print Assumptions C09_recompress_kmers.

(* the bridge lemma: a node path of compress_graph is a valid walk of C03 *)
Theorem C09_node_path_valid_walk : forall D join K stranded (g : graph D) S p,
  winv D K stranded g S -> (forall x, In x p -> (fst x < length g)%nat) -> Linked D join K stranded g p ->
  EdgeSpec.valid_walk D K stranded g p.
Proof. exact Linked_valid_walk. Qed.
Print Assumptions C09_node_path_valid_walk.

(* non-vacuity: the surviving nodes of the example carry each canonical 4-mer once *)
Example C09_nonvacuous_kmers :
  NoDup (surv_kmers rpay 4 false ex_g (survivors rpay ex_g (Some [4; 6]%nat))).
Proof. apply nodupb_sound. vm_compute. reflexivity. Qed.
Print Assumptions C09_nonvacuous_kmers.

(* ---- singleton_route at model level, FULL (composition with C01) ---------------------------------------------- *)
(* The one-node-per-k-mer graph of a k-mer table T is T itself read as a graph (node sequence = key, same extension
   byte, same payload).  "Well-formed" is spelled out: [tbl_ok] and [exts_sym] (C01's hypotheses on the table) and
   [rvalid] of the singleton graph (C09's hypothesis; it contains "every extension leads to a present k-mer" - without
   it the first step of compress_graph prunes dangling extensions that compress_kmers counts, and the two results
   differ).  Then compress_graph and compress_kmers are the SAME run of AbstractWalk.compress: the static step
   relations coincide, rnext (graph) = knext (table) for every node and side (C09_singleton_next), hence the vertex
   lists of result node i and of output node i of compress_kmers are equal (C09_singleton_paths) and the two nodes
   consist of the same k-mers (C09_singleton_route_nodes); in particular [same_partition], the Prop decided by
   chk.c09.singleton_route (C09_singleton_route).  Neither C02_same_node_iff nor maximality is needed. *)
From DBG Require Spec.CompressSpec Proofs.CompressRefine Proofs.SingletonRoute.

Theorem C09_singleton_next : forall D join K stranded, (1 <= K)%nat -> forall T : Compress.table D,
  CompressSpec.tbl_ok D K stranded T ->
  forall i d, rnext D join K stranded T i d = CompressSpec.knext D join stranded T i d.
Proof. exact SingletonRoute.rnext_knext. Qed.
Print Assumptions C09_singleton_next.

Theorem C09_singleton_paths : forall D reduce join K stranded, (1 <= K)%nat -> (forall a b, join a b = join b a) ->
  forall T : Compress.table D,
  CompressSpec.tbl_ok D K stranded T -> rvalid D K stranded T ->
  forall out paths, compress_graph_paths D reduce join K stranded T None = Some (out, paths) ->
  map (map fst) paths =
  map (fun x => node_verts nat (fst (fst x)) (snd (fst x)) (snd x))
      (CompressRefine.compress_struct D join stranded T (seq 0 (length T)) (seq 0 (length T))).
Proof. exact SingletonRoute.singleton_paths. Qed.
Print Assumptions C09_singleton_paths.

Theorem C09_singleton_route_nodes : forall D reduce join K stranded, (1 <= K)%nat -> (forall a b, join a b = join b a) ->
  forall T : Compress.table D,
  CompressSpec.tbl_ok D K stranded T -> rvalid D K stranded T -> CompressSpec.exts_sym D stranded T ->
  forall a paths b, compress_graph_paths D reduce join K stranded T None = Some (a, paths) ->
  Compress.compress_kmers D reduce join stranded T = Some b ->
  Forall2 (fun na nb => Permutation (node_kmers D K stranded na) (node_kmers D K stranded nb)) a b.
Proof. exact SingletonRoute.singleton_route_nodes. Qed.
Print Assumptions C09_singleton_route_nodes.

Theorem C09_singleton_route : forall reduce join K stranded (T : Compress.table rpay) a b,
  (1 <= K)%nat -> (forall x y, join x y = join y x) ->
  CompressSpec.tbl_ok rpay K stranded T -> CompressSpec.exts_sym rpay stranded T -> rvalid rpay K stranded T ->
  compress_graph rpay reduce join K stranded T None = Some a ->
  Compress.compress_kmers rpay reduce join stranded T = Some b ->
  same_partition K stranded a b.
Proof. exact SingletonRoute.singleton_route_same_partition. Qed.
Print Assumptions C09_singleton_route.

(* non-vacuity of the singleton route: K = 4, unstranded, the canonical 4-mers of ACGTTGCAACTCCGA (two palindromes, a
   hairpin) with extensions derived from membership, read as a table and as a one-k-mer-per-node graph: all three
   hypotheses hold, and both routes produce five nodes *)
From DBG Require Check.CompressHyp Proofs.CompressHypProofs.
Definition C09_ex_keys : list dna :=
  nodup (list_eq_dec N.eq_dec) (map canon (kmers 4 [0;1;2;3;3;2;1;0;0;1;3;1;1;2;0]%N)).
Definition C09_ex_table : Compress.table rpay :=
  map (fun p => (fst p, Compress.derive_exts false C09_ex_keys (fst p), (0%N, [N.of_nat (snd p)])))
      (combine C09_ex_keys (seq 0 (length C09_ex_keys))).
Example C09_nonvacuous_singleton :
  CompressSpec.tbl_ok rpay 4 false C09_ex_table /\ CompressSpec.exts_sym rpay false C09_ex_table /\
  rvalid rpay 4 false C09_ex_table /\
  option_map (map fst) (option_map (map fst) (compress_graph rpay rpay_reduce (rpay_join 0) 4 false C09_ex_table None)) =
    Some [[0;1;2;3]; [0;0;1;2]; [3;2;1;0]; [2;1;0;0;1]; [0;0;1;3;1;1;2;0]]%N /\
  option_map (map fst) (option_map (map fst) (Compress.compress_kmers rpay rpay_reduce (rpay_join 0) false C09_ex_table)) =
    Some [[0;1;2;3]; [0;0;1;2]; [3;2;1;0]; [2;1;0;0;1]; [0;0;1;3;1;1;2;0]]%N.
Proof.
  split; [apply CompressHypProofs.tbl_okb_sound; vm_compute; reflexivity|].
  split; [apply CompressHypProofs.exts_symb_sound; vm_compute; reflexivity|].
  split; [apply rvalidb_sound; vm_compute; reflexivity|].
  split; vm_compute; reflexivity.
Qed.
Print Assumptions C09_nonvacuous_singleton.

(* ---- terminal extensions, FULL (closes the inclusion-only clause of C09_recompress_nodes_partial) ---------------- *)
(* Every result node's extension byte is EXACTLY the byte of its node path in the restricted input graph: the left
   extensions of the first node of the path and the right extensions of the last one, each read in the orientation in
   which the node is traversed (complemented when flipped) - nothing is lost, nothing invented: [exts_exact], the Prop
   decided by chk.c09.exts.  Consequently the final fix_exts(None) of compress_graph is the IDENTITY on the graph
   assembled by build_node (C09_final_fix_exts_identity; formerly an observation from the mutation run).
   Proof idea: an extension of an end node a of a path, through its exterior side, resolves in the restricted graph to a
   surviving node y entered through side t (walk invariant).  If (y, t) were glued to a neighbour inside y's path, the
   sole mutual link there would - by symmetry and uniqueness of y's extension on side t - lead back to a through a's
   exterior side, which is impossible in a path without repeated node.  So (y, t) is an exterior end of its path, the
   extended k-mer is (up to strand) a terminal k-mer of a result node (end k-mers of a spelled path: C03_path_spelling),
   and find_link of the result graph finds it. *)
From DBG Require Import Proofs.RecompExts.

Theorem C09_recompress_exts : forall D reduce join K stranded, (forall a b, join a b = join b a) ->
  forall (g : graph D) censor out paths,
  rvalid D K stranded g -> compress_graph_paths D reduce join K stranded g censor = Some (out, paths) ->
  exts_exact D K stranded g censor out.
Proof. exact recompress_exts_exact. Qed.
Print Assumptions C09_recompress_exts.

(* the same, node by node along the node paths the model records *)
Theorem C09_recompress_node_exts : forall D reduce join K stranded, (forall a b, join a b = join b a) ->
  forall (g : graph D) censor out paths,
  rvalid D K stranded g -> compress_graph_paths D reduce join K stranded g censor = Some (out, paths) ->
  exists g1, restrict D K stranded g (survivors D g censor) = Some g1 /\
    Forall2 (fun n p => sequence_of_path D K g1 p = Some (n_seq D n) /\ path_exts D g1 p = Some (n_exts D n)) out paths.
Proof. exact recompress_node_exts. Qed.
Print Assumptions C09_recompress_node_exts.

Theorem C09_final_fix_exts_identity : forall D reduce join K stranded, (forall a b, join a b = join b a) ->
  forall (g : graph D) censor g1 r,
  rvalid D K stranded g ->
  fix_exts D K stranded g (Some (initial_avail (length g) censor)) = Some g1 ->
  rb_loop D reduce join K stranded g1 (seq 0 (length g)) (initial_avail (length g) censor) = Some r ->
  fix_exts D K stranded (map fst r) None = Some (map fst r).
Proof. exact final_fix_exts_identity. Qed.
Print Assumptions C09_final_fix_exts_identity.

(* non-vacuity: in the example above the merged node ATGACCAT (path node 0 forward, node 3 flipped) gets the left
   extensions of node 0 and the complemented left extensions of node 3 - both empty after the restriction -, and CCCC keeps
   exactly the extensions that still resolve *)
Example C09_nonvacuous_exts :
  exts_exact rpay 4 false ex_g (Some [4; 6]%nat)
    [ ([0;3;2;0;1;1;0;3], 0, (1,[0;3])); ([1;1;3;3;2;1;1;0;0;3;0;0;3], 128, (0,[1])); ([1;1;1;1], 38, (0,[2]));
      ([0;0;3;3], 8, (0,[5])); ([2;1;1;1], 32, (0,[7])) ].
Proof.
  eapply (C09_recompress_exts rpay rpay_reduce (rpay_join 0) 4 false).
  - intros a b. unfold rpay_join. reflexivity.
  - exact (proj1 C09_nonvacuous).
  - exact (proj2 C09_nonvacuous).
Qed.
Print Assumptions C09_nonvacuous_exts.

(* ==== inputs with dangling extensions (work package c09x) ======================================================= *)
(* The graphs that the real pipelines hand to compress_graph DO carry extension bits that resolve to no node end
   (count-filtered tables keep extensions towards filtered-out k-mers; shard graphs combined by BaseGraph::combine keep
   extensions into k-mers censored in another shard), so [resolvable] - part of [rvalid] - fails on them.  It is not
   needed:
     [rvalid_loose g]  = [rvalid g] WITHOUT [resolvable] (Check/RecompLooseCheck.v).  [links_sym] is conditional on the
                         extension resolving, so only the extensions that DO resolve must have a return extension.
     [prune g]         = fix_exts g None: g with exactly the dangling bits removed.
   Two independent facts make every theorem above hold under [rvalid_loose]:
    (1) pruning changes nothing that compress_graph can see - for EVERY graph (no hypothesis), every valid set and every
        censor list, fix_exts (prune g) v = fix_exts g v and compress_graph (prune g) = compress_graph g;
    (2) the pruned graph of a loosely valid graph is valid.
   All statements are about the ORIGINAL graph g (its restriction g1 = fix_exts g (Some survivors), its k-mers). *)
From DBG Require Import Check.RecompLooseCheck Proofs.RecompLoose Proofs.RecompLooseMain.

Theorem C09X_rvalid_iff_loose : forall D K stranded (g : graph D),
  rvalid D K stranded g <-> rvalid_loose D K stranded g /\ resolvable D K stranded g.
Proof. exact rvalid_iff_loose. Qed.
Print Assumptions C09X_rvalid_iff_loose.

Theorem C09X_chk_valid_loose_sound : forall D K stranded (g : graph D),
  rvalid_looseb D K stranded g = true -> rvalid_loose D K stranded g.
Proof. exact rvalid_looseb_sound. Qed.
Print Assumptions C09X_chk_valid_loose_sound.

(* ---- (a) directly: the first step of compress_graph establishes the walk invariant ----------------------------- *)
Theorem C09X_restrict_invariant : forall D K stranded (g g1 : graph D) S,
  rvalid_loose D K stranded g -> (forall x, In x S -> (x < length g)%nat) ->
  restrict D K stranded g S = Some g1 -> winv D K stranded g1 S.
Proof. exact restrict_winv_loose. Qed.
Print Assumptions C09X_restrict_invariant.

(* ---- (b) pruning ---------------------------------------------------------------------------------------------- *)
(* what the pruned graph is: same sequences and payloads, a bit is kept iff it was set and resolves to a node end *)
Theorem C09X_prune_spec : forall D K stranded (g g' : graph D) x n,
  prune D K stranded g = Some g' -> nth_error g x = Some n ->
  exists e, nth_error g' x = Some (n_seq D n, e, n_data D n) /\ e < 256 /\
    forall d b, In b bases4 ->
      e_has_ext e (dirb d) b =
      e_has_ext (n_exts D n) (dirb d) b &&
      match ext_link D K stranded g x d b with Some _ => true | None => false end.
Proof. exact prune_spec. Qed.
Print Assumptions C09X_prune_spec.

Theorem C09X_prune_total : forall D K stranded (g : graph D), exists g', prune D K stranded g = Some g'.
Proof. exact prune_total. Qed.
Print Assumptions C09X_prune_total.

(* fix_exts(Some(all ids)) = fix_exts(None) *)
Theorem C09X_restrict_all_prune : forall D K stranded (g : graph D),
  restrict D K stranded g (seq 0 (length g)) = prune D K stranded g.
Proof. exact restrict_all_prune. Qed.
Print Assumptions C09X_restrict_all_prune.

(* pruning does not change what any extension resolves to (NO hypothesis on g) ... *)
Theorem C09X_ext_link_prune : forall D K stranded (g g' : graph D) x d b,
  prune D K stranded g = Some g' -> In b bases4 -> ext_link D K stranded g' x d b = ext_link D K stranded g x d b.
Proof. exact ext_link_prune. Qed.
Print Assumptions C09X_ext_link_prune.

(* ... hence neither the result of fix_exts, for any valid set, ... *)
Theorem C09X_fix_exts_prune : forall D K stranded (g g' : graph D) valid,
  prune D K stranded g = Some g' -> fix_exts D K stranded g' valid = fix_exts D K stranded g valid.
Proof. exact fix_exts_prune. Qed.
Print Assumptions C09X_fix_exts_prune.

(* ... nor the result of compress_graph, for any censor list *)
Theorem C09X_compress_graph_prune : forall D reduce join K stranded (g g' : graph D) censor,
  prune D K stranded g = Some g' ->
  compress_graph_paths D reduce join K stranded g' censor = compress_graph_paths D reduce join K stranded g censor.
Proof. exact compress_graph_prune. Qed.
Print Assumptions C09X_compress_graph_prune.

(* more generally: two graphs with the same node sequences and payloads whose extensions resolve TO SURVIVORS alike
   (i.e. which differ only by bits that do not resolve to a survivor) are compressed alike *)
Theorem C09X_compress_graph_congr : forall D reduce join K stranded (g g' : graph D) censor,
  length g' = length g ->
  (forall x n, nth_error g x = Some n ->
     exists n', nth_error g' x = Some n' /\ n_seq D n' = n_seq D n /\ n_data D n' = n_data D n) ->
  (forall x d b, In b bases4 ->
     keeps D K stranded g' (Some (survivors D g censor)) x d b = keeps D K stranded g (Some (survivors D g censor)) x d b) ->
  compress_graph_paths D reduce join K stranded g' censor = compress_graph_paths D reduce join K stranded g censor.
Proof. exact compress_graph_congr. Qed.
Print Assumptions C09X_compress_graph_congr.

(* the pruned graph of a loosely valid graph is valid: the bridge through which every theorem of C09 transfers *)
Theorem C09X_prune_valid : forall D K stranded (g g' : graph D),
  rvalid_loose D K stranded g -> prune D K stranded g = Some g' -> rvalid D K stranded g'.
Proof. exact prune_rvalid. Qed.
Print Assumptions C09X_prune_valid.

Theorem C09X_restrict_of_rvalid_loose : forall D K stranded (g g1 : graph D),
  rvalid_loose D K stranded g -> restrict D K stranded g (seq 0 (length g)) = Some g1 -> rvalid D K stranded g1.
Proof. exact restrict_of_rvalid_loose. Qed.
Print Assumptions C09X_restrict_of_rvalid_loose.

(* a valid graph has nothing to prune *)
Theorem C09X_prune_valid_id : forall D K stranded (g : graph D),
  rvalid D K stranded g -> prune D K stranded g = Some g.
Proof. exact prune_rvalid_id. Qed.
Print Assumptions C09X_prune_valid_id.

(* ---- the theorems of C09, FULL, under rvalid_loose -------------------------------------------------------------- *)
Theorem C09X_recompress_refines_walk : forall D reduce join K stranded, (forall a b, join a b = join b a) ->
  forall (g : graph D) censor,
  rvalid_loose D K stranded g ->
  exists g1 out r,
    restrict D K stranded g (survivors D g censor) = Some g1 /\ winv D K stranded g1 (survivors D g censor) /\
    compress_graph_paths D reduce join K stranded g censor = Some (out, map snd r) /\
    result_ok D reduce join K stranded g1 (survivors D g censor) r
      (compress nat Nat.eq_dec (wnext D join K stranded g1 (survivors D g censor)) (seq 0 (length g))
                (survivors D g censor)) /\
    pruned_of D K stranded (map fst r) None out.
Proof. exact recompress_refines_walk_loose. Qed.
Print Assumptions C09X_recompress_refines_walk.

(* totality: on every loosely valid graph compress_graph returns (no panic, no fuel exhaustion) *)
Theorem C09X_recompress_total : forall D reduce join K stranded, (forall a b, join a b = join b a) ->
  forall (g : graph D) censor,
  rvalid_loose D K stranded g ->
  exists out paths, compress_graph_paths D reduce join K stranded g censor = Some (out, paths).
Proof. exact recompress_total_loose. Qed.
Print Assumptions C09X_recompress_total.

Theorem C09X_recompress_partition : forall D reduce join K stranded, (forall a b, join a b = join b a) ->
  forall (g : graph D) censor out paths,
  rvalid_loose D K stranded g -> compress_graph_paths D reduce join K stranded g censor = Some (out, paths) ->
  length out = length paths /\
  NoDup (concat (map (map fst) paths)) /\
  forall x, In x (concat (map (map fst) paths)) <->
            (x < length g)%nat /\ match censor with Some c => ~ In x c | None => True end.
Proof. exact recompress_partition_loose. Qed.
Print Assumptions C09X_recompress_partition.

Theorem C09X_recompress_kmers : forall D reduce join K stranded, (forall a b, join a b = join b a) ->
  forall (g : graph D) censor out paths,
  rvalid_loose D K stranded g -> compress_graph_paths D reduce join K stranded g censor = Some (out, paths) ->
  Permutation (graph_kmers D K stranded out) (surv_kmers D K stranded g (survivors D g censor)) /\
  (NoDup (surv_kmers D K stranded g (survivors D g censor)) -> kmers_exact D K stranded g censor out).
Proof. exact recompress_kmers_exact_loose. Qed.
Print Assumptions C09X_recompress_kmers.

Theorem C09X_recompress_maximal : forall D reduce join K stranded, (forall a b, join a b = join b a) ->
  forall (g : graph D) censor out paths,
  rvalid_loose D K stranded g -> compress_graph_paths D reduce join K stranded g censor = Some (out, paths) ->
  exists g1, restrict D K stranded g (survivors D g censor) = Some g1 /\
    forall p, In p paths -> forall x d w t,
      In x (map fst p) -> rnext D join K stranded g1 x d = Some (w, t) -> In w (map fst p).
Proof. exact recompress_maximal_loose. Qed.
Print Assumptions C09X_recompress_maximal.

Theorem C09X_recompress_merged_ok : forall D reduce join K stranded, (forall a b, join a b = join b a) ->
  forall (g : graph D) censor out paths,
  rvalid_loose D K stranded g -> compress_graph_paths D reduce join K stranded g censor = Some (out, paths) ->
  exists g1, restrict D K stranded g (survivors D g censor) = Some g1 /\
             Forall (merged_ok D join K stranded g1 (survivors D g censor)) out.
Proof. exact recompress_merged_ok_loose. Qed.
Print Assumptions C09X_recompress_merged_ok.

Theorem C09X_payload_fold : forall D reduce join K stranded, (forall a b, join a b = join b a) ->
  forall (g : graph D) censor out paths,
  rvalid_loose D K stranded g -> compress_graph_paths D reduce join K stranded g censor = Some (out, paths) ->
  exists g1, restrict D K stranded g (survivors D g censor) = Some g1 /\
    Forall2 (fun n p => exists lp seed rp sd0 ds, p = assemble lp seed rp /\
               option_map (n_data D) (nth_error g1 seed) = Some sd0 /\
               datas D g1 (verts nat lp ++ verts nat rp) = Some ds /\
               n_data D n = fold_left reduce ds sd0) out paths.
Proof. exact payload_fold_loose. Qed.
Print Assumptions C09X_payload_fold.

(* every result node is built from its node path (spelling, payload fold, terminal extensions of the end nodes) *)
Theorem C09X_recompress_nodes : forall D reduce join K stranded, (forall a b, join a b = join b a) ->
  forall (g : graph D) censor out paths,
  rvalid_loose D K stranded g -> compress_graph_paths D reduce join K stranded g censor = Some (out, paths) ->
  exists g1, restrict D K stranded g (survivors D g censor) = Some g1 /\
             Forall2 (node_of_path D reduce join K stranded g1) out paths.
Proof. exact recompress_nodes_loose. Qed.
Print Assumptions C09X_recompress_nodes.

(* extension EQUALITY w.r.t. the restricted graph g1 = fix_exts g (Some survivors) *)
Theorem C09X_recompress_exts : forall D reduce join K stranded, (forall a b, join a b = join b a) ->
  forall (g : graph D) censor out paths,
  rvalid_loose D K stranded g -> compress_graph_paths D reduce join K stranded g censor = Some (out, paths) ->
  exts_exact D K stranded g censor out.
Proof. exact recompress_exts_exact_loose. Qed.
Print Assumptions C09X_recompress_exts.

Theorem C09X_recompress_node_exts : forall D reduce join K stranded, (forall a b, join a b = join b a) ->
  forall (g : graph D) censor out paths,
  rvalid_loose D K stranded g -> compress_graph_paths D reduce join K stranded g censor = Some (out, paths) ->
  exists g1, restrict D K stranded g (survivors D g censor) = Some g1 /\
    Forall2 (fun n p => sequence_of_path D K g1 p = Some (n_seq D n) /\ path_exts D g1 p = Some (n_exts D n)) out paths.
Proof. exact recompress_node_exts_loose. Qed.
Print Assumptions C09X_recompress_node_exts.

Theorem C09X_final_fix_exts_identity : forall D reduce join K stranded, (forall a b, join a b = join b a) ->
  forall (g : graph D) censor g1 r,
  rvalid_loose D K stranded g ->
  fix_exts D K stranded g (Some (initial_avail (length g) censor)) = Some g1 ->
  rb_loop D reduce join K stranded g1 (seq 0 (length g)) (initial_avail (length g) censor) = Some r ->
  fix_exts D K stranded (map fst r) None = Some (map fst r).
Proof. exact final_fix_exts_identity_loose. Qed.
Print Assumptions C09X_final_fix_exts_identity.

(* idempotence: a loosely valid graph whose pruned graph has no mergeable pair of distinct nodes is compressed to its
   PRUNED graph (same nodes, order, orientation, payloads; extension bytes minus the dangling bits).  With dangling
   bits the graph itself is not a fixed point - the bits are dropped. *)
Theorem C09X_recompress_idempotent : forall D reduce join K stranded, (forall a b, join a b = join b a) ->
  forall (g g' : graph D),
  rvalid_loose D K stranded g -> prune D K stranded g = Some g' ->
  (forall x d y t, rnext D join K stranded g' x d = Some (y, t) -> y = x) ->
  compress_graph D reduce join K stranded g None = Some g'.
Proof. exact recompress_idempotent_loose. Qed.
Print Assumptions C09X_recompress_idempotent.

(* ---- non-vacuity -------------------------------------------------------------------------------------------------- *)
(* K = 4, unstranded.  Node 0 = AACCG has TWO right extension bits: T (CCGT, the left end of node 1 = CCGTT) and the
   DANGLING A (CCGA is no node end), plus a dangling left bit G; node 2 = TCAAC (the reverse complement of GTTGA, which
   follows node 1) has a dangling left bit T; node 3 = GGGAGA is isolated with two dangling bits.  The graph is loosely
   valid but NOT valid, and in it node 0 looks branching on the right (rnext = None); compress_graph nevertheless
   succeeds and merges 0, 1 and 2 (flipped) into AACCGTTGA - across the place where the dangling bit made node 0 look
   branching - and, when node 2 is censored, 0 and 1 into AACCGTT. *)
Definition ex_loose : graph rpay :=
  [ ([0;0;1;1;2], 148, (0,[0])); ([1;1;2;3;3], 65, (0,[1])); ([3;1;0;0;1], 72, (0,[2])); ([2;2;2;0;2;0], 72, (0,[3])) ].
Example C09X_nonvacuous :
  rvalid_loose rpay 4 false ex_loose /\ ~ rvalid rpay 4 false ex_loose /\
  dangling rpay 4 false ex_loose 0 DRight 0 /\
  rnext rpay (rpay_join 0) 4 false ex_loose 0 DRight = None /\
  prune rpay 4 false ex_loose =
    Some [ ([0;0;1;1;2], 128, (0,[0])); ([1;1;2;3;3], 65, (0,[1])); ([3;1;0;0;1], 64, (0,[2])); ([2;2;2;0;2;0], 0, (0,[3])) ] /\
  compress_graph_paths rpay rpay_reduce (rpay_join 0) 4 false ex_loose None =
    Some ([ ([0;0;1;1;2;3;3;2;0], 0, (0,[0;1;2])); ([2;2;2;0;2;0], 0, (0,[3])) ],
          [ [(0%nat, DLeft); (1%nat, DLeft); (2%nat, DRight)]; [(3%nat, DLeft)] ]) /\
  compress_graph_paths rpay rpay_reduce (rpay_join 0) 4 false ex_loose (Some [2%nat]) =
    Some ([ ([0;0;1;1;2;3;3], 0, (0,[0;1])); ([2;2;2;0;2;0], 0, (0,[3])) ],
          [ [(0%nat, DLeft); (1%nat, DLeft)]; [(3%nat, DLeft)] ]).
Proof.
  split; [apply rvalid_looseb_sound; vm_compute; reflexivity|].
  split.
  { intros (_ & _ & _ & _ & Hres & _).
    apply (Hres 0%nat DRight 0 ([0;0;1;1;2], 148, (0,[0]))); [reflexivity | cbn; auto | vm_compute; reflexivity | vm_compute; reflexivity]. }
  split; [eexists; split; [reflexivity|]; split; vm_compute; reflexivity|].
  repeat split; vm_compute; reflexivity.
Qed.
Print Assumptions C09X_nonvacuous.

(* the theorems apply to it: e.g. the extension bytes of the result are exact w.r.t. the restricted graph *)
Example C09X_nonvacuous_exts :
  exts_exact rpay 4 false ex_loose None
    [ ([0;0;1;1;2;3;3;2;0], 0, (0,[0;1;2])); ([2;2;2;0;2;0], 0, (0,[3])) ].
Proof.
  eapply (C09X_recompress_exts rpay rpay_reduce (rpay_join 0) 4 false).
  - intros a b. unfold rpay_join. reflexivity.
  - exact (proj1 C09X_nonvacuous).
  - exact (proj1 (proj2 (proj2 (proj2 (proj2 (proj2 C09X_nonvacuous)))))).
Qed.
Print Assumptions C09X_nonvacuous_exts.

(* ---- where loosely valid graphs come from: C03's graph_ok and the outputs of compress_kmers (C01) ---------------- *)
(* [graph_ok] (Spec/EdgeSpec.v, C03: well-formed nodes, distinct ends, resolvable extensions answered by a return
   extension - the hypothesis of C03_edges_symmetric, checked on every implementation graph by chk_graph_ok) implies
   [rvalid_loose] as soon as the extension fields are bytes and a palindromic k-mer occurs only as a node of its own
   ([pal_ends]; not part of graph_ok).  [links_sym] IS C03_edges_symmetric read on extension bits.  With C03's
   [exts_resolvable] in addition ([valid_graph]) the graph is [rvalid]. *)
From DBG Require Spec.EdgeSpec Proofs.CompressGraphOk Proofs.RecompLooseGraphOk.

Theorem C09X_graph_ok_rvalid_loose : forall D K stranded (g : graph D),
  EdgeSpec.graph_ok D K stranded g -> (forall n, In n g -> n_exts D n < 256) -> pal_ends D K stranded g ->
  rvalid_loose D K stranded g.
Proof. exact RecompLooseGraphOk.graph_ok_rvalid_loose. Qed.
Print Assumptions C09X_graph_ok_rvalid_loose.

Theorem C09X_valid_graph_rvalid : forall D K stranded (g : graph D),
  EdgeSpec.valid_graph D K stranded g -> (forall n, In n g -> n_exts D n < 256) -> pal_ends D K stranded g ->
  rvalid D K stranded g.
Proof. exact RecompLooseGraphOk.valid_graph_rvalid. Qed.
Print Assumptions C09X_valid_graph_rvalid.

(* Every graph that compress_kmers builds from a table satisfying C01's hypotheses ([tbl_ok], [exts_sym]) and
   [exts_sym_pal] (Proofs/CompressGraphOk.v) is loosely valid - the table may well carry extensions towards absent
   (count-filtered) k-mers: [exts_sym] only speaks about extensions whose target is present.  Hence compress_graph, with
   any censor list, returns on it and all C09X theorems apply. *)
Theorem C09X_compress_kmers_rvalid_loose : forall D reduce join K stranded, (1 <= K)%nat -> forall T : Compress.table D,
  CompressSpec.tbl_ok D K stranded T -> CompressSpec.exts_sym D stranded T -> CompressGraphOk.exts_sym_pal D stranded T ->
  exists nodes, Compress.compress_kmers D reduce join stranded T = Some nodes /\
    EdgeSpec.graph_ok D K stranded nodes /\ rvalid_loose D K stranded nodes.
Proof. exact RecompLooseGraphOk.compress_kmers_rvalid_loose. Qed.
Print Assumptions C09X_compress_kmers_rvalid_loose.

Theorem C09X_compress_kmers_then_compress_graph : forall D reduce join K stranded, (1 <= K)%nat ->
  (forall a b, join a b = join b a) -> forall T : Compress.table D,
  CompressSpec.tbl_ok D K stranded T -> CompressSpec.exts_sym D stranded T -> CompressGraphOk.exts_sym_pal D stranded T ->
  exists nodes, Compress.compress_kmers D reduce join stranded T = Some nodes /\
    forall censor, exists out paths,
      compress_graph_paths D reduce join K stranded nodes censor = Some (out, paths).
Proof. exact RecompLooseGraphOk.compress_kmers_then_compress_graph. Qed.
Print Assumptions C09X_compress_kmers_then_compress_graph.

(* non-vacuity: the table of C09_nonvacuous_singleton with the entry of CTCC (index 7) REMOVED after the extensions
   were derived - a count-filtered table: ACTC keeps its extension towards CTCC, CCGA (stored as TCGG) the one back.
   The hypotheses hold; compress_kmers breaks the unitig AACTCCGA into AACTC and TCGGA, whose extension bytes 34 and 64
   carry the dangling bits: the graph is loosely valid (by the theorem) and not valid; compress_graph returns its pruned
   graph (bytes 2 and 0). *)
Definition C09X_ex_table : Compress.table rpay := firstn 7 C09_ex_table ++ skipn 8 C09_ex_table.
Definition C09X_ex_graph : graph rpay :=
  [ ([0;1;2;3], 129, (0,[0])); ([0;0;1;2], 130, (0,[1])); ([3;2;1;0], 24, (0,[2])); ([2;1;0;0;1], 200, (0,[3;4]));
    ([0;0;1;3;1], 34, (0,[5;6])); ([3;1;2;2;0], 64, (0,[8;9])) ].
Example C09X_nonvacuous_table :
  CompressSpec.tbl_ok rpay 4 false C09X_ex_table /\ CompressSpec.exts_sym rpay false C09X_ex_table /\
  CompressGraphOk.exts_sym_pal rpay false C09X_ex_table /\
  Compress.compress_kmers rpay rpay_reduce (rpay_join 0) false C09X_ex_table = Some C09X_ex_graph /\
  rvalid_loose rpay 4 false C09X_ex_graph /\ dangling rpay 4 false C09X_ex_graph 4 DRight 1 /\
  ~ rvalid rpay 4 false C09X_ex_graph /\
  compress_graph rpay rpay_reduce (rpay_join 0) 4 false C09X_ex_graph None = prune rpay 4 false C09X_ex_graph /\
  prune rpay 4 false C09X_ex_graph =
    Some [ ([0;1;2;3], 129, (0,[0])); ([0;0;1;2], 130, (0,[1])); ([3;2;1;0], 24, (0,[2])); ([2;1;0;0;1], 200, (0,[3;4]));
           ([0;0;1;3;1], 2, (0,[5;6])); ([3;1;2;2;0], 0, (0,[8;9])) ].
Proof.
  assert (H1 : CompressSpec.tbl_ok rpay 4 false C09X_ex_table)
    by (apply CompressHypProofs.tbl_okb_sound; vm_compute; reflexivity).
  assert (H2 : CompressSpec.exts_sym rpay false C09X_ex_table)
    by (apply CompressHypProofs.exts_symb_sound; vm_compute; reflexivity).
  assert (H3 : CompressGraphOk.exts_sym_pal rpay false C09X_ex_table)
    by (apply CompressGraphOk.exts_sym_palb_sound; vm_compute; reflexivity).
  assert (H4 : Compress.compress_kmers rpay rpay_reduce (rpay_join 0) false C09X_ex_table = Some C09X_ex_graph)
    by (vm_compute; reflexivity).
  split; [exact H1|]. split; [exact H2|]. split; [exact H3|]. split; [exact H4|].
  split.
  { destruct (C09X_compress_kmers_rvalid_loose rpay rpay_reduce (rpay_join 0) 4 false (le_n_S _ _ (Nat.le_0_l _))
                C09X_ex_table H1 H2 H3) as (nodes & Hc & _ & V).
    rewrite H4 in Hc. injection Hc as <-. exact V. }
  split; [eexists; split; [reflexivity|]; split; vm_compute; reflexivity|].
  split.
  { intros (_ & _ & _ & _ & Hres & _).
    apply (Hres 4%nat DRight 1 ([0;0;1;3;1], 34, (0,[5;6]))); [reflexivity | cbn; auto | vm_compute; reflexivity | vm_compute; reflexivity]. }
  split; vm_compute; reflexivity.
Qed.
Print Assumptions C09X_nonvacuous_table.

(* ---- graphs combined by BaseGraph::combine ------------------------------------------------------------------------ *)
(* combine_graphs = concatenation of the shard graphs (node i of shard j becomes node offset_j + i).  When the k-mer
   sets of the shard graphs are pairwise disjoint - NoDup of the (canonical) k-mers of the combined graph, which is what
   C04's combine_spec concludes - the following is PRESERVED from [rvalid_loose] of every shard graph:
   node well-formedness, distinct left ends, distinct right ends, [pal_ends], and the symmetry of every link between
   two nodes of the SAME shard graph ([rvalid_loose_within]); find_link of the combined graph extends find_link of each
   shard graph.  NOT preserved: the symmetry of links that cross from one shard graph to another - an extension that
   was dangling in its shard may resolve to a node of another shard that records no return extension
   (C09X_combine_counterexample: compress_graph then panics).  With cross-shard symmetry added the combined graph is
   loosely valid and all C09X theorems apply. *)
From DBG Require Proofs.RecompLooseCombine.

Theorem C09X_combine_find_link : forall D K stranded (g1 g2 : graph D),
  Forall (node_ok D K) g1 -> Forall (node_ok D K) g2 -> NoDup (graph_kmers D K stranded (g1 ++ g2)) ->
  forall k d y t f,
  (find_link D K stranded g1 k d = Some (y, t, f) -> find_link D K stranded (g1 ++ g2) k d = Some (y, t, f)) /\
  (find_link D K stranded g2 k d = Some (y, t, f) ->
     find_link D K stranded (g1 ++ g2) k d = Some ((length g1 + y)%nat, t, f)) /\
  (find_link D K stranded (g1 ++ g2) k d = Some (y, t, f) ->
     ((y < length g1)%nat /\ find_link D K stranded g1 k d = Some (y, t, f)) \/
     ((length g1 <= y)%nat /\ find_link D K stranded g2 k d = Some ((y - length g1)%nat, t, f))).
Proof. exact RecompLooseCombine.find_link_app. Qed.
Print Assumptions C09X_combine_find_link.

Theorem C09X_combine_within : forall D K stranded (gs : list (graph D)),
  Forall (rvalid_loose D K stranded) gs -> NoDup (graph_kmers D K stranded (combine_graphs gs)) ->
  rvalid_loose_within D K stranded gs (combine_graphs gs).
Proof. exact RecompLooseCombine.combine_rvalid_loose_within. Qed.
Print Assumptions C09X_combine_within.

Theorem C09X_combine_rvalid_loose : forall D K stranded (gs : list (graph D)),
  Forall (rvalid_loose D K stranded) gs -> NoDup (graph_kmers D K stranded (combine_graphs gs)) ->
  links_sym_on D K stranded (fun x y => ~ same_shard D gs x y) (combine_graphs gs) ->
  rvalid_loose D K stranded (combine_graphs gs).
Proof. exact RecompLooseCombine.combine_rvalid_loose. Qed.
Print Assumptions C09X_combine_rvalid_loose.

(* non-vacuity: ex_loose is the combination of three loosely valid shard graphs with disjoint k-mers (its cross-shard
   links 0 -> 1 -> 2 are symmetric) *)
Example C09X_nonvacuous_combine :
  let gs : list (graph rpay) :=
    [ [ ([0;0;1;1;2], 148, (0,[0])) ]; [ ([1;1;2;3;3], 65, (0,[1])); ([3;1;0;0;1], 72, (0,[2])) ];
      [ ([2;2;2;0;2;0], 72, (0,[3])) ] ] in
  Forall (rvalid_loose rpay 4 false) gs /\ NoDup (graph_kmers rpay 4 false (combine_graphs gs)) /\
  combine_graphs gs = ex_loose /\ rvalid_loose_within rpay 4 false gs (combine_graphs gs).
Proof.
  intro gs.
  assert (H1 : Forall (rvalid_loose rpay 4 false) gs)
    by (repeat (apply Forall_cons; [apply rvalid_looseb_sound; vm_compute; reflexivity|]); apply Forall_nil).
  assert (H2 : NoDup (graph_kmers rpay 4 false (combine_graphs gs))) by (apply nodupb_sound; vm_compute; reflexivity).
  split; [exact H1|]. split; [exact H2|]. split; [reflexivity|]. now apply C09X_combine_within.
Qed.
Print Assumptions C09X_nonvacuous_combine.

(* counter-example for the cross-shard links: shard A = { AACCG with the right extension T } (dangling in A), shard
   B = { CCGTT without extensions }; both are loosely valid and their k-mers are disjoint.  In the combination the
   extension of node 0 resolves to node 1, which has no return extension: the combined graph is not loosely valid, and
   compress_graph reaches the "unreachable" panic of try_extend_node (incoming_count = 0). *)
Example C09X_combine_counterexample :
  let gs : list (graph rpay) := [ [ ([0;0;1;1;2], 128, (0,[0])) ]; [ ([1;1;2;3;3], 0, (0,[1])) ] ] in
  Forall (rvalid_loose rpay 4 false) gs /\ NoDup (graph_kmers rpay 4 false (combine_graphs gs)) /\
  ext_link rpay 4 false (combine_graphs gs) 0 DRight 3 = Some (1%nat, DLeft, false) /\
  ~ rvalid_loose rpay 4 false (combine_graphs gs) /\
  compress_graph_paths rpay rpay_reduce (rpay_join 0) 4 false (combine_graphs gs) None = None.
Proof.
  intro gs.
  split; [repeat (apply Forall_cons; [apply rvalid_looseb_sound; vm_compute; reflexivity|]); apply Forall_nil|].
  split; [apply nodupb_sound; vm_compute; reflexivity|].
  split; [vm_compute; reflexivity|].
  split; [|vm_compute; reflexivity].
  intros (_ & _ & _ & _ & Hsym).
  destruct (Hsym 0%nat DRight 3 1%nat DLeft false ([0;0;1;1;2], 128, (0,[0])) ([1;1;2;3;3], 0, (0,[1])))
    as (t' & b' & d' & f' & Hb' & He' & _); [reflexivity | reflexivity | cbn; auto | vm_compute; reflexivity|].
  cbn in Hb'. destruct t'; destruct Hb' as [<-|[<-|[<-|[<-|[]]]]]; vm_compute in He'; discriminate.
Qed.
Print Assumptions C09X_combine_counterexample.

(* the same from the hypothesis of C04_combine_spec: shard graphs with duplicate-free k-mers carrying pairwise different
   shard ids *)
From DBG Require Check.PipelineCheck.
Theorem C09X_combine_shards_within : forall K stranded (sh : dna -> N) (bs : list N) (gs : list (graph rpay)),
  NoDup bs ->
  Forall2 (fun b g => NoDup (PipelineCheck.graph_kmers K stranded g) /\
                      forall x, In x (PipelineCheck.graph_kmers K stranded g) -> sh x = b) bs gs ->
  Forall (rvalid_loose rpay K stranded) gs ->
  rvalid_loose_within rpay K stranded gs (combine_graphs gs).
Proof. exact RecompLooseCombine.combine_shards_rvalid_loose_within. Qed.
Print Assumptions C09X_combine_shards_within.

(* ---- the debug-build self check of compress_graph (known finding F11) ------------------------------------------------
   compress_graph ends with `debug_assert!(dbg.is_compressed(compression) == None)`.  is_compressed (model:
   Algo/IsCompressed.v) applies join_test to the FOLDED payloads of two adjacent result nodes, whereas the walk applied it
   to the payloads of the two nodes at the junction.  For a join predicate that is not a congruence for the reduction the
   two disagree: on the valid stranded chain AAAC -> AACC -> ACCG with colours 1, 1, 2, join = colour equality and
   reduce = colour SUM, the model (= the release build) returns the two nodes AAACC (colour 2) and ACCG (colour 2) - the
   correct result by C09_recompress_maximal, the junction 1 <> 2 being refused - while is_compressed answers Some (0, 1):
   the debug build panics.  Both shipped CompressionSpec implementations (always join; payload equality with the payload
   kept) are congruences, and for them the comparison r.is_compressed of every run finds None on every output. *)
From DBG Require Import Algo.IsCompressed.
Definition f11_reduce (a b : rpay) : rpay := (fst a + fst b, snd a ++ snd b).
Definition f11_graph : graph rpay :=
  [([0;0;0;1], 32, (1, [0])); ([0;0;1;1], 65, (1, [1])); ([0;1;1;2], 1, (2, [2]))].
Theorem C09_debug_assert_refuted :
  rvalid rpay 4 true f11_graph /\
  exists out, compress_graph rpay f11_reduce (rpay_join 1) 4 true f11_graph None = Some out /\
              out = [([0;0;0;1;1], 64, (2, [0; 1])); ([0;1;1;2], 1, (2, [2]))] /\
              is_compressed rpay (rpay_join 1) 4 true out = Some (0%nat, 1%nat).
Proof.
  split; [apply rvalidb_sound; vm_compute; reflexivity|].
  eexists. split; [vm_compute; reflexivity|]. split; [reflexivity|vm_compute; reflexivity].
Qed.
Print Assumptions C09_debug_assert_refuted.
(* ==== re-compression at k-mer level (work package e2e-sharded) ===================================================== *)
(* [lgraph_ok K st kj S g] (Proofs/LooseGraph.v), for a set S of canonical (K+1)-mers and a join predicate kj on canonical
   k-mers: node sequences are DNA of length >= K, extension fields are bytes, every step inside a node is a merge of S
   ([PipelineCheck.unbranched]: sole link of S on both facing sides, no palindrome, join accepted), the extension bits of
   a node end are exactly the links of S at its end k-mer on that side (the two sides of a palindromic single-k-mer node
   identified), and a palindromic k-mer is a node of its own.  Every graph compress_kmers builds from a table whose
   extension bits are the membership in S satisfies it (LooseGraph.compress_lgraph_ok), also when extensions lead to
   absent k-mers; it is local to nodes, hence inherited by BaseGraph::combine.
   (1) such a graph with pairwise distinct k-mers is loosely valid - ALL its links are symmetric, whatever shard graphs
       it was combined from;
   (2) compress_graph without censoring returns on it, and the result is THE unitig graph of the part SL of S whose links
       have both k-mers in the graph: same k-mers, link set SL, every step inside a node a merge of SL, every merge of SL
       a step inside a node (or closing it), payloads (ids concatenated, colour of the seed) those of the node's k-mers.
   Proof of (2): Proofs/LooseValid.v (an extension bit resolves iff its target k-mer is in the graph; the pruned graph is
   valid and lgraph_ok w.r.t. SL) + Proofs/RecompUnitig.v (C09's node paths - sole mutual links, maximality, spelling,
   terminal extensions - lifted to k-mers by reading every node of a path in its direction of travel). *)
From DBG Require Check.PipelineCheck Proofs.LooseGraph Proofs.LooseValid Proofs.RecompUnitig.

Theorem C09X_lgraph_rvalid_loose : forall K st (kj : dna -> dna -> bool) (S' : list dna) (G : list GraphCheck.node_t),
  (1 <= K)%nat -> LooseGraph.lgraph_ok K st kj S' G -> NoDup (PipelineCheck.graph_kmers K st G) ->
  rvalid_loose GraphCheck.pay K st G.
Proof. exact LooseValid.G_rvalid_loose. Qed.
Print Assumptions C09X_lgraph_rvalid_loose.

Theorem C09X_lgraph_resolves_iff : forall K st (kj : dna -> dna -> bool) (S' : list dna) (G : list GraphCheck.node_t),
  (1 <= K)%nat -> LooseGraph.lgraph_ok K st kj S' G -> NoDup (PipelineCheck.graph_kmers K st G) ->
  forall x (n : GraphCheck.node_t) s c, nth_error G x = Some n -> c < 4 ->
  e_has_ext (PipelineCheck.nd_exts n) (dirb s) c = true ->
  (find_link GraphCheck.pay K st G (GraphIndex.extend (term_kmer K (PipelineCheck.nd_seq n) s) c s) s <> None <->
   In (PipelineCheck.cn st (GraphIndex.extend (term_kmer K (PipelineCheck.nd_seq n) s) c s)) (PipelineCheck.graph_kmers K st G)).
Proof. exact LooseValid.resolves_iff. Qed.
Print Assumptions C09X_lgraph_resolves_iff.

Theorem C09X_recompress_unitig : forall K st mode (idf colf : dna -> N) (S' SL : list dna) (G out : list GraphCheck.node_t),
  (1 <= K)%nat ->
  LooseGraph.lgraph_ok K st (PipelineCheck.kjoin_f mode colf) S' G -> NoDup (PipelineCheck.graph_kmers K st G) ->
  (forall w, In w SL <-> In w S' /\ LooseValid.both_in K st (fun k => In k (PipelineCheck.graph_kmers K st G)) w) ->
  (forall w, In w SL -> exists v, wf_dna v /\ length v = S K /\ w = PipelineCheck.cn st v) ->
  PipelineCheck.payload_ok K st mode idf colf G ->
  compress_graph GraphCheck.pay GraphCheck.pay_reduce (GraphCheck.pay_join mode) K st G None = Some out ->
  Permutation (PipelineCheck.graph_kmers K st out) (PipelineCheck.graph_kmers K st G) /\
  (forall w, In w (PipelineCheck.graph_links K st out) <-> In w SL) /\
  PipelineCheck.unitig_graph K st mode colf out /\ PipelineCheck.payload_ok K st mode idf colf out.
Proof. exact RecompUnitig.recompress_loose_unitig. Qed.
Print Assumptions C09X_recompress_unitig.

Theorem C09X_recompress_unitig_total : forall K st mode (colf : dna -> N) (S' : list dna) (G : list GraphCheck.node_t),
  (1 <= K)%nat ->
  LooseGraph.lgraph_ok K st (PipelineCheck.kjoin_f mode colf) S' G -> NoDup (PipelineCheck.graph_kmers K st G) ->
  exists out, compress_graph GraphCheck.pay GraphCheck.pay_reduce (GraphCheck.pay_join mode) K st G None = Some out.
Proof. exact RecompUnitig.recompress_loose_total. Qed.
Print Assumptions C09X_recompress_unitig_total.

(* every graph compress_kmers builds from a table whose extension bits are the membership in a link set S - extensions
   towards absent k-mers allowed - is lgraph_ok w.r.t. S *)
Theorem C09X_compress_kmers_lgraph_ok : forall K st mode, (1 <= K)%nat ->
  forall (T : Compress.table GraphCheck.pay) (LS : list dna) (idf colf : dna -> N),
  CompressSpec.tbl_ok GraphCheck.pay K st T -> E2eDefs.links_loose GraphCheck.pay st T LS ->
  (forall ent, In ent T -> Compress.e_data GraphCheck.pay ent = (colf (Compress.e_key GraphCheck.pay ent), [idf (Compress.e_key GraphCheck.pay ent)])) ->
  forall g, Compress.compress_kmers GraphCheck.pay GraphCheck.pay_reduce (GraphCheck.pay_join mode) st T = Some g ->
  LooseGraph.lgraph_ok K st (PipelineCheck.kjoin_f mode colf) LS g.
Proof. exact LooseGraph.compress_lgraph_ok. Qed.
Print Assumptions C09X_compress_kmers_lgraph_ok.

(* ---- the producer of censor lists: CleanGraph::find_bad_nodes (src/clean_graph.rs; model Algo/CleanGraph.v) ----------
   It returns, in strictly ascending order and without repetition, exactly the ids of the nodes that have no extension
   bit on one side, at most one on the other, and satisfy the caller's predicate - a well-formed censor list (ids in
   range) for compress_graph, to which C09C_recompress_unitig_censored / C09(X)_* apply. *)
From DBG Require Import Algo.CleanGraph Proofs.CleanGraphProofs.
From Coq Require Import Sorted.
Theorem C09_find_bad_nodes_spec : forall D (tip_pred : gnode D -> bool) (g : graph D) i,
  In i (find_bad_nodes D tip_pred g) <-> exists n, nth_error g i = Some n /\ test_tip D tip_pred n = true.
Proof. exact find_bad_nodes_spec. Qed.
Theorem C09_find_bad_nodes_sorted : forall D (tip_pred : gnode D -> bool) (g : graph D),
  StronglySorted lt (find_bad_nodes D tip_pred g) /\ NoDup (find_bad_nodes D tip_pred g) /\
  forall i, In i (find_bad_nodes D tip_pred g) -> (i < length g)%nat.
Proof.
  intros D tp g. split; [exact (find_bad_nodes_sorted D tp g)|exact (find_bad_nodes_nodup_in_range D tp g)].
Qed.
Print Assumptions C09_find_bad_nodes_spec.
Print Assumptions C09_find_bad_nodes_sorted.
