(* C09 - Graph re-compression and node censoring are exact.  Statements only (work in progress: checker soundness). *)
From Coq Require Import NArith List Bool Arith Permutation.
From DBG Require Import Spec.Dna Spec.GraphIndex Packed.ExtsModel Algo.Compress Algo.GraphModel Algo.Recompress
  Check.RecompCheck Proofs.RecompCheckProofs.
Import ListNotations.

(* ---- soundness of the boolean checkers that are run on the implementation's outputs ---- *)
Theorem C09_chk_kmers_sound : forall D K stranded (g : graph D) censor out,
  chk_kmers D K stranded g censor out = true -> kmers_exact D K stranded g censor out.
Proof. exact chk_kmers_sound. Qed.
Print Assumptions C09_chk_kmers_sound.

Theorem C09_chk_maximal_sound : forall D join K stranded (g : graph D) censor out,
  chk_maximal D join K stranded g censor out = true -> maximal_ok D join K stranded g censor out.
Proof. exact chk_maximal_sound. Qed.
Print Assumptions C09_chk_maximal_sound.

Theorem C09_chk_no_dangling_sound : forall D K stranded (out : graph D),
  chk_no_dangling D K stranded out = true -> no_dangling D K stranded out.
Proof. exact chk_no_dangling_sound. Qed.
Print Assumptions C09_chk_no_dangling_sound.

Theorem C09_chk_payload_sound : forall K stranded (g out : graph rpay),
  chk_payload K stranded g out = true -> Forall (payload_ok K g) out.
Proof. exact chk_payload_sound. Qed.
Print Assumptions C09_chk_payload_sound.

Theorem C09_chk_idempotent_sound : forall K stranded (a b : graph rpay),
  chk_same_nodes K stranded a b = true -> same_nodes K stranded a b.
Proof. exact chk_same_nodes_sound. Qed.
Print Assumptions C09_chk_idempotent_sound.

Theorem C09_chk_singleton_route_sound : forall K stranded (a b : graph rpay),
  chk_same_partition K stranded a b = true -> same_partition K stranded a b.
Proof. exact chk_same_partition_sound. Qed.
Print Assumptions C09_chk_singleton_route_sound.

Theorem C09_chk_exts_sound : forall D K stranded (g : graph D) censor out,
  chk_exts D K stranded g censor out = true -> exts_exact D K stranded g censor out.
Proof. exact chk_exts_sound. Qed.
Print Assumptions C09_chk_exts_sound.
