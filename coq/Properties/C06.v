(* C06 - Strand symmetry when unstranded, strand separation when stranded.
   This file collects the parts: the filter half is in Properties/C06Filter.v (k-mer table);
   the graph half (partition, payloads, links of the finished graph; direct / sharded / re-compressed pipelines)
   is in Properties/C06Graph.v. *)
From DBG Require Export Properties.C06Filter.
From DBG Require Export Properties.C06Graph.

Print Assumptions C06_keys_canonical.
Print Assumptions C06_keys_complete.
Print Assumptions C06_stranded_exact.
Print Assumptions C06_filter_rc_invariant.
Print Assumptions C06_filter_rc_count_filter.
Print Assumptions C06_filter_rc_count_filter_set.
Print Assumptions C06_count_filter_perm.
Print Assumptions C06_count_filter_set_perm.
Print Assumptions C06_retained_flip.
Print Assumptions C06_spec_links_flip.
Print Assumptions C06_kmer_colour_flip.
Print Assumptions C06_assembly_of_flip.
Print Assumptions C06_graph_rc_invariant_partial.
Print Assumptions C06_chk_assembly_rc.
Print Assumptions C06_stranded_exact_graph.
Print Assumptions C06_chk_graph_exact_sound.
