(* C06 - Strand symmetry when unstranded, strand separation when stranded.
   This file collects the parts: the filter half is in Properties/C06Filter.v (k-mer table);
   the graph half is to be added next to it. *)
From DBG Require Export Properties.C06Filter.

Print Assumptions C06_keys_canonical.
Print Assumptions C06_keys_complete.
Print Assumptions C06_stranded_exact.
Print Assumptions C06_filter_rc_invariant.
Print Assumptions C06_filter_rc_count_filter.
Print Assumptions C06_filter_rc_count_filter_set.
Print Assumptions C06_count_filter_perm.
Print Assumptions C06_count_filter_set_perm.
