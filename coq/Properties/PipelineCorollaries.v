(* Pipeline corollaries (work package pipecor) - the query / export / index / iteration theorems of C03, C18, C19, C20
   INSTANTIATED on the graphs the model pipelines return.  Statements only.
   The theorems of those properties carry a hypothesis on the finished graph ([graph_ok], [valid_graph], [graph_wf],
   [tab_symmetric], distinct end k-mers).  Here g is the output of [direct] (any route: compress_kmers, compress_graph of the
   one-k-mer-per-node graph, compress_graph of compress_kmers' graph) resp. of [sharded] (msp -> per-shard filter / prune /
   compress_kmers -> combine -> compress_graph), and the ONLY hypotheses are the guards of C04_direct_assembly resp.
   C04_sharded_assembly: K >= 4, reads over {A,C,G,T}, duplicate-free iteration orders (oracle inputs of the model),
   [params_ok] / [perm_ok] / variant <> 1 for the sharded pipeline.  Nothing is assumed about g.  Nothing is left partial.

   Two bridge lemmas, for every graph and payload type:
     PC_rvalid_ends_valid_graph   C09's [rvalid] + C03's [ends_ok] -> C03's [valid_graph]  (converse of C09X_valid_graph_rvalid;
                                  [rvalid] alone does not give the cross-strand clause of [ends_ok] when unstranded)
     PC_graph_ok_tab_symmetric    C03's [graph_ok] -> C20's [tab_symmetric (pal_node g) (etab_of g)]; the palindromic
                                  single-k-mer clauses of edges_sym_on and tab_symmetric coincide
                                  (EdgeSpec.pal_single g v <-> pal_node g v = true): no mismatch.
   Proofs: Proofs/PipeCorBridge.v, Proofs/PipeCorValid.v, Proofs/PipeCorMain.v. *)
From Coq Require Import NArith ZArith List Bool Arith Permutation.
From DBG Require Import Spec.Dna Spec.GraphIndex Spec.Unitig Spec.ExportSpec Packed.ExtsModel Algo.Compress Algo.KmerHist Algo.GraphModel
  Algo.Recompress Algo.Beam Algo.Export Algo.Pipeline Algo.BBHash Spec.EdgeSpec Check.GraphCheck Check.PipelineCheck Check.RecompCheck
  Proofs.MspProofs Proofs.ShardProofs Proofs.BBHashProofs Proofs.NodeIterAll Proofs.ExportEdgesProofs
  Proofs.PipeCorBridge Proofs.PipeCorValid Proofs.PipeCorMain.
Import ListNotations.
Open Scope nat_scope.

(* ==== bridge lemmas (every graph, every payload type) ============================================================== *)
Theorem PC_rvalid_ends_valid_graph : forall (D : Type) (K : nat) (stranded : bool) (g : GraphModel.graph D), 1 <= K ->
  rvalid D K stranded g -> ends_ok D K stranded g -> valid_graph D K stranded g.
Proof. exact rvalid_ends_valid_graph. Qed.
Print Assumptions PC_rvalid_ends_valid_graph.

Theorem PC_graph_ok_tab_symmetric : forall (D : Type) (K : nat) (stranded : bool) (g : GraphModel.graph D),
  graph_ok D K stranded g -> tab_symmetric (pal_node D K stranded g) (etab_of D K stranded g).
Proof. exact graph_ok_tab_symmetric. Qed.
Print Assumptions PC_graph_ok_tab_symmetric.

(* ==== 1. VALIDITY: pipeline_valid_graph ============================================================================= *)
Theorem pipeline_valid_graph_direct : forall K st thr mode route (lreads : list lread) order g,
  4 <= K -> Forall (fun r => wf_dna (fst r)) lreads -> NoDup order ->
  direct K st thr mode route lreads order = Some g -> valid_graph pay K st g.
Proof. exact direct_route_valid_graph. Qed.
Print Assumptions pipeline_valid_graph_direct.

Theorem pipeline_valid_graph_sharded : forall max_len K P perm st thr mode variant (lreads : list lread) orders bs gs g,
  params_ok max_len K P -> perm_ok P perm -> 4 <= K -> Forall lread_ok lreads -> Forall (@NoDup dna) orders -> variant <> 1%N ->
  sharded max_len K P perm st thr mode variant lreads orders = Some (bs, gs, g) -> valid_graph pay K st g.
Proof. exact sharded_valid_graph. Qed.
Print Assumptions pipeline_valid_graph_sharded.

(* ... and, as an output of compress_graph, the sharded result is also valid in C09's sense *)
Theorem pipeline_rvalid_sharded : forall max_len K P perm st thr mode variant (lreads : list lread) orders bs gs g,
  params_ok max_len K P -> perm_ok P perm -> 4 <= K -> Forall lread_ok lreads -> Forall (@NoDup dna) orders -> variant <> 1%N ->
  sharded max_len K P perm st thr mode variant lreads orders = Some (bs, gs, g) -> rvalid pay K st g /\ ends_ok pay K st g.
Proof. exact sharded_out_rvalid. Qed.
Print Assumptions pipeline_rvalid_sharded.

(* ==== 2. BEST PATHS ================================================================================================= *)
(* max_path, for EVERY score and solid function: does not fail, returns a walk along reported edges without repeated
   node, and sequence_of_path of that walk succeeds and spells exactly the k-mers of the walked nodes, in order *)
Theorem pipeline_max_path_direct : forall K st thr mode route (lreads : list lread) order g,
  4 <= K -> Forall (fun r => wf_dna (fst r)) lreads -> NoDup order ->
  direct K st thr mode route lreads order = Some g ->
  forall (score : pay -> Z) (solid : pay -> bool),
  exists p, max_path pay K st score solid g = Some p /\
    valid_walk pay K st g p /\ NoDup (map fst p) /\
    exists sq, sequence_of_path pay K g p = Some sq /\ kmers K sq = walk_kmers pay K g p.
Proof. exact direct_max_path. Qed.
Print Assumptions pipeline_max_path_direct.

Theorem pipeline_max_path_sharded : forall max_len K P perm st thr mode variant (lreads : list lread) orders bs gs g,
  params_ok max_len K P -> perm_ok P perm -> 4 <= K -> Forall lread_ok lreads -> Forall (@NoDup dna) orders -> variant <> 1%N ->
  sharded max_len K P perm st thr mode variant lreads orders = Some (bs, gs, g) ->
  forall (score : pay -> Z) (solid : pay -> bool),
  exists p, max_path pay K st score solid g = Some p /\
    valid_walk pay K st g p /\ NoDup (map fst p) /\
    exists sq, sequence_of_path pay K g p = Some sq /\ kmers K sq = walk_kmers pay K g p.
Proof. exact sharded_max_path. Qed.
Print Assumptions pipeline_max_path_sharded.

(* max_path_beam (the repaired code, fix F10), every score function, every beam width >= 1: the same *)
Theorem pipeline_beam_direct : forall K st thr mode route (lreads : list lread) order g,
  4 <= K -> Forall (fun r => wf_dna (fst r)) lreads -> NoDup order ->
  direct K st thr mode route lreads order = Some g ->
  forall (score : pay -> Z) beam, 0 < beam ->
  exists p, max_path_beam pay K st score false g beam = Some p /\
    valid_walk pay K st g p /\ NoDup (map fst p) /\
    exists sq, sequence_of_path pay K g p = Some sq /\ kmers K sq = walk_kmers pay K g p.
Proof. exact direct_beam. Qed.
Print Assumptions pipeline_beam_direct.

Theorem pipeline_beam_sharded : forall max_len K P perm st thr mode variant (lreads : list lread) orders bs gs g,
  params_ok max_len K P -> perm_ok P perm -> 4 <= K -> Forall lread_ok lreads -> Forall (@NoDup dna) orders -> variant <> 1%N ->
  sharded max_len K P perm st thr mode variant lreads orders = Some (bs, gs, g) ->
  forall (score : pay -> Z) beam, 0 < beam ->
  exists p, max_path_beam pay K st score false g beam = Some p /\
    valid_walk pay K st g p /\ NoDup (map fst p) /\
    exists sq, sequence_of_path pay K g p = Some sq /\ kmers K sq = walk_kmers pay K g p.
Proof. exact sharded_beam. Qed.
Print Assumptions pipeline_beam_sharded.

(* ==== 3. EDGES: symmetric and overlapping ========================================================================== *)
Theorem pipeline_edges_direct : forall K st thr mode route (lreads : list lread) order g,
  4 <= K -> Forall (fun r => wf_dna (fst r)) lreads -> NoDup order ->
  direct K st thr mode route lreads order = Some g ->
  (forall u s v t f, u < length g -> In (v, t, f) (edges_of pay K st g u s) ->
     exists s' t' f', In (u, s', f') (edges_of pay K st g v t') /\
       (t' = t \/ EdgeSpec.pal_single pay K st g v) /\ (s' = s \/ EdgeSpec.pal_single pay K st g u) /\ f' = dir_eqb t' s') /\
  (forall u s l, In l (edges_of pay K st g u s) -> edge_ok pay K st g u s l).
Proof. exact direct_edges. Qed.
Print Assumptions pipeline_edges_direct.

Theorem pipeline_edges_sharded : forall max_len K P perm st thr mode variant (lreads : list lread) orders bs gs g,
  params_ok max_len K P -> perm_ok P perm -> 4 <= K -> Forall lread_ok lreads -> Forall (@NoDup dna) orders -> variant <> 1%N ->
  sharded max_len K P perm st thr mode variant lreads orders = Some (bs, gs, g) ->
  (forall u s v t f, u < length g -> In (v, t, f) (edges_of pay K st g u s) ->
     exists s' t' f', In (u, s', f') (edges_of pay K st g v t') /\
       (t' = t \/ EdgeSpec.pal_single pay K st g v) /\ (s' = s \/ EdgeSpec.pal_single pay K st g u) /\ f' = dir_eqb t' s') /\
  (forall u s l, In l (edges_of pay K st g u s) -> edge_ok pay K st g u s l).
Proof. exact sharded_edges. Qed.
Print Assumptions pipeline_edges_sharded.

(* ==== 4. GFA: pipeline_gfa_complete_once =========================================================================== *)
(* the edge table of a pipeline graph is symmetric in C20's sense, and every link find_edges reports is denoted by exactly
   one L line of write_gfa - by one or two when it touches a palindromic single-k-mer node ([once_or_twice]) *)
Theorem pipeline_gfa_complete_once_direct : forall K st thr mode route (lreads : list lread) order g,
  4 <= K -> Forall (fun r => wf_dna (fst r)) lreads -> NoDup order ->
  direct K st thr mode route lreads order = Some g ->
  tab_symmetric (pal_node pay K st g) (etab_of pay K st g) /\
  forall u a es v b flip, find_edges pay K st g u a = Some es -> In (v, b, flip) es ->
    once_or_twice (pal_node pay K st g) (gfa_links (write_gfa pay K st g)) (u, a) (v, b).
Proof. exact direct_gfa. Qed.
Print Assumptions pipeline_gfa_complete_once_direct.

Theorem pipeline_gfa_complete_once_sharded : forall max_len K P perm st thr mode variant (lreads : list lread) orders bs gs g,
  params_ok max_len K P -> perm_ok P perm -> 4 <= K -> Forall lread_ok lreads -> Forall (@NoDup dna) orders -> variant <> 1%N ->
  sharded max_len K P perm st thr mode variant lreads orders = Some (bs, gs, g) ->
  tab_symmetric (pal_node pay K st g) (etab_of pay K st g) /\
  forall u a es v b flip, find_edges pay K st g u a = Some es -> In (v, b, flip) es ->
    once_or_twice (pal_node pay K st g) (gfa_links (write_gfa pay K st g)) (u, a) (v, b).
Proof. exact sharded_gfa. Qed.
Print Assumptions pipeline_gfa_complete_once_sharded.

(* ==== 5. INDEX: pipeline_find_link_exact =========================================================================== *)
(* For every hash oracle h (with sizes sz) and every base graph bg holding the sequences of a pipeline graph g (node-end
   keys = [enc] of the first / last k-mers, Algo/BBHash.v): boomphf's no-duplicate precondition [good_graph] holds (the end
   k-mers are pairwise distinct and [enc] is injective on k-mers); BaseGraph::finish under any schedule = finish_serial;
   and whenever the construction terminated (serially, or in parallel under any schedule) find_link on the built index never
   panics and answers exactly the list-level find_link of the graph - the function all theorems above speak about. *)
Theorem pipeline_find_link_exact_direct : forall K st thr mode route (lreads : list lread) order g,
  4 <= K -> Forall (fun r => wf_dna (fst r)) lreads -> NoDup order ->
  direct K st thr mode route lreads order = Some g ->
  forall (h : nat -> nat -> key -> nat) (sz : nat -> nat), (forall iter n k, h iter (sz n) k < sz n) ->
  forall bg, BBHash.g_seqs bg = GraphModel.g_seqs pay g -> BBHash.g_stranded bg = st ->
    good_graph K bg /\
    (forall r, finish_par h sz K bg r -> r = finish_serial h sz K bg) /\
    (forall d kmer dr, finish_serial h sz K bg = Some d \/ finish_par h sz K bg (Some d) -> length kmer = K -> wf_dna kmer ->
       BBHash.find_link h d kmer dr = Some (GraphModel.find_link pay K st g kmer dr)).
Proof. exact direct_index. Qed.
Print Assumptions pipeline_find_link_exact_direct.

Theorem pipeline_find_link_exact_sharded : forall max_len K P perm st thr mode variant (lreads : list lread) orders bs gs g,
  params_ok max_len K P -> perm_ok P perm -> 4 <= K -> Forall lread_ok lreads -> Forall (@NoDup dna) orders -> variant <> 1%N ->
  sharded max_len K P perm st thr mode variant lreads orders = Some (bs, gs, g) ->
  forall (h : nat -> nat -> key -> nat) (sz : nat -> nat), (forall iter n k, h iter (sz n) k < sz n) ->
  forall bg, BBHash.g_seqs bg = GraphModel.g_seqs pay g -> BBHash.g_stranded bg = st ->
    good_graph K bg /\
    (forall r, finish_par h sz K bg r -> r = finish_serial h sz K bg) /\
    (forall d kmer dr, finish_serial h sz K bg = Some d \/ finish_par h sz K bg (Some d) -> length kmer = K -> wf_dna kmer ->
       BBHash.find_link h d kmer dr = Some (GraphModel.find_link pay K st g kmer dr)).
Proof. exact sharded_index. Qed.
Print Assumptions pipeline_find_link_exact_sharded.

(* ==== 6. ITERATION (C18, second sentence) ========================================================================== *)
(* iterating the nodes in order, each from its first to its last k-mer, visits - up to the strand representative when
   unstranded - exactly the retained k-mers of the reads, each once *)
Theorem pipeline_iter_once_direct : forall K st thr mode route (lreads : list lread) order g,
  4 <= K -> Forall (fun r => wf_dna (fst r)) lreads -> NoDup order ->
  direct K st thr mode route lreads order = Some g ->
  Permutation (map (canon_k st) (iter_all_nodes pay K g)) (retained K st thr (map fst lreads)) /\
  NoDup (map (canon_k st) (iter_all_nodes pay K g)).
Proof. exact direct_iter. Qed.
Print Assumptions pipeline_iter_once_direct.

Theorem pipeline_iter_once_sharded : forall max_len K P perm st thr mode variant (lreads : list lread) orders bs gs g,
  params_ok max_len K P -> perm_ok P perm -> 4 <= K -> Forall lread_ok lreads -> Forall (@NoDup dna) orders -> variant <> 1%N ->
  sharded max_len K P perm st thr mode variant lreads orders = Some (bs, gs, g) ->
  Permutation (map (canon_k st) (iter_all_nodes pay K g)) (retained K st thr (map fst lreads)) /\
  NoDup (map (canon_k st) (iter_all_nodes pay K g)).
Proof. exact sharded_iter. Qed.
Print Assumptions pipeline_iter_once_sharded.

(* ==== the same on EVERY valid graph (any payload type): what the instances above are instances of ================== *)
Theorem PC_valid_max_path : forall (D : Type) K st (g : GraphModel.graph D), valid_graph D K st g ->
  forall (score : D -> Z) (solid : D -> bool),
  exists p, max_path D K st score solid g = Some p /\ valid_walk D K st g p /\ NoDup (map fst p) /\
    exists sq, sequence_of_path D K g p = Some sq /\ kmers K sq = walk_kmers D K g p.
Proof. exact vg_max_path. Qed.
Print Assumptions PC_valid_max_path.
Theorem PC_valid_beam : forall (D : Type) K st (g : GraphModel.graph D), valid_graph D K st g ->
  forall (score : D -> Z) beam, 0 < beam ->
  exists p, max_path_beam D K st score false g beam = Some p /\ valid_walk D K st g p /\ NoDup (map fst p) /\
    exists sq, sequence_of_path D K g p = Some sq /\ kmers K sq = walk_kmers D K g p.
Proof. exact vg_beam. Qed.
Print Assumptions PC_valid_beam.
Theorem PC_valid_gfa_complete_once : forall (D : Type) K st (g : GraphModel.graph D), valid_graph D K st g ->
  tab_symmetric (pal_node D K st g) (etab_of D K st g) /\
  forall u a es v b flip, find_edges D K st g u a = Some es -> In (v, b, flip) es ->
    once_or_twice (pal_node D K st g) (gfa_links (write_gfa D K st g)) (u, a) (v, b).
Proof. exact vg_gfa. Qed.
Print Assumptions PC_valid_gfa_complete_once.
Theorem PC_valid_find_link_exact : forall (D : Type) K st (g : GraphModel.graph D), valid_graph D K st g ->
  forall (h : nat -> nat -> key -> nat) (sz : nat -> nat), (forall iter n k, h iter (sz n) k < sz n) ->
  forall bg, BBHash.g_seqs bg = GraphModel.g_seqs D g -> BBHash.g_stranded bg = st ->
    good_graph K bg /\
    (forall r, finish_par h sz K bg r -> r = finish_serial h sz K bg) /\
    (forall d kmer dr, finish_serial h sz K bg = Some d \/ finish_par h sz K bg (Some d) -> length kmer = K -> wf_dna kmer ->
       BBHash.find_link h d kmer dr = Some (GraphModel.find_link D K st g kmer dr)).
Proof. exact vg_index. Qed.
Print Assumptions PC_valid_find_link_exact.

(* ==== non-vacuity =================================================================================================== *)
(* The example of Properties/C04.v: K = 4, ACGGTCCATG twice (labels 0, 1) and CATGGTA once.  The guards of both pipelines
   hold on it (C04_direct_nonvacuous, C04_sharded_nonvacuous). *)
From DBG Require Import Properties.C04.
Definition pc_gd : list node_t := Eval vm_compute in match direct 4 false 2 0 2 ex4_reads ex4_order with Some g => g | None => [] end.
Definition pc_gs : list node_t :=
  Eval vm_compute in match sharded 64 4 2 None false 2 0 2 ex4_reads ex4_orders with Some (_, _, g) => g | None => [] end.
Definition pc_gu : list node_t := Eval vm_compute in match direct 4 false 1 1 1 ex4_reads ex4u_order with Some g => g | None => [] end.
Definition pc_score (d : pay) : Z := Z.of_nat (length (snd d)).

(* goal 1 applied: the three example graphs are outputs of the pipelines under their guards, hence valid - by the theorems,
   not by running a checker; node 2 of the four-node graph is a palindromic single-k-mer node *)
Example PC_nonvacuous_valid :
  valid_graph pay 4 false pc_gd /\ valid_graph pay 4 false pc_gs /\ valid_graph pay 4 false pc_gu /\
  EdgeSpec.pal_single pay 4 false pc_gu 2.
Proof.
  destruct C04_direct_nonvacuous as (HK & Hwf & _ & Hnd & _ & _ & _ & Pu & _).
  destruct C04_sharded_nonvacuous as (G1 & G3 & _ & G2 & Hord & Hv & _).
  split; [apply (pipeline_valid_graph_direct 4 false 2 0 2 ex4_reads ex4_order pc_gd HK Hwf Hnd); vm_compute; reflexivity|].
  split; [eapply (pipeline_valid_graph_sharded 64 4 2 None false 2 0 2 ex4_reads ex4_orders _ _ pc_gs G1 G3 HK G2 Hord Hv);
          vm_compute; reflexivity|].
  split.
  - apply (pipeline_valid_graph_direct 4 false 1 1 1 ex4_reads ex4u_order pc_gu HK Hwf); [|vm_compute; reflexivity].
    eapply Permutation_NoDup; [symmetry; exact Pu | apply Proofs.PipelineCheckProofs.retained_nodup].
  - repeat split; vm_compute; auto.
Qed.
Print Assumptions PC_nonvacuous_valid.

(* goal 2: unstranded, threshold 2 - route 2 of direct returns ACGGTCCAT + CATG, sharded returns ATGGACCGT + CATG (the same
   assembly, the long node spelled on the other strand); the best paths walk both nodes and spell ACGGTCCATG resp. its
   reverse complement CATGGACCGT; the beam search (width 2) on the sharded graph enters both nodes through their right
   sides.  Threshold 1, mode 1, route 1: four nodes, the best path passes THROUGH the palindromic node CATG (node 2). *)
Example PC_nonvacuous_paths :
  direct 4 false 2 0 2 ex4_reads ex4_order = Some pc_gd /\
  (exists bs gs, sharded 64 4 2 None false 2 0 2 ex4_reads ex4_orders = Some (bs, gs, pc_gs)) /\
  direct 4 false 1 1 1 ex4_reads ex4u_order = Some pc_gu /\
  map fst (map fst pc_gd) = [[0;1;2;2;3;1;1;0;3]; [1;0;3;2]]%N /\ map fst (map fst pc_gs) = [[0;3;2;2;0;1;1;2;3]; [1;0;3;2]]%N /\
  max_path pay 4 false pc_score (fun _ => true) pc_gd = Some [(0, DLeft); (1, DLeft)] /\
  sequence_of_path pay 4 pc_gd [(0, DLeft); (1, DLeft)] = Some [0;1;2;2;3;1;1;0;3;2]%N /\
  max_path pay 4 false pc_score (fun _ => true) pc_gs = Some [(1, DLeft); (0, DLeft)] /\
  sequence_of_path pay 4 pc_gs [(1, DLeft); (0, DLeft)] = Some [1;0;3;2;2;0;1;1;2;3]%N /\
  max_path_beam pay 4 false pc_score false pc_gs 2 = Some [(0, DRight); (1, DRight)] /\
  sequence_of_path pay 4 pc_gs [(0, DRight); (1, DRight)] = Some [0;1;2;2;3;1;1;0;3;2]%N /\
  max_path pay 4 false pc_score (fun _ => true) pc_gu = Some [(0, DLeft); (3, DRight); (2, DRight)] /\
  max_path_beam pay 4 false pc_score false pc_gu 2 = Some [(0, DLeft); (3, DRight); (2, DRight)] /\
  sequence_of_path pay 4 pc_gu [(0, DLeft); (3, DRight); (2, DRight)] = Some [0;1;2;2;3;1;1;0;3;2]%N.
Proof.
  split; [vm_compute; reflexivity|]. split; [do 2 eexists; vm_compute; reflexivity|].
  repeat split; vm_compute; reflexivity.
Qed.
Print Assumptions PC_nonvacuous_paths.

(* goal 4: the GFA of the sharded graph has its one link once; in the four-node graph (ACGGTCCA, TGGTA, CATG, ATGG) node 2
   is the palindrome CATG on its own: its link to the left end of node 3 (ATGG) is written twice - once from each of its
   two identified sides -, every other link once; the conclusion of pipeline_gfa_complete_once_direct on two of them *)
Example PC_nonvacuous_gfa :
  gfa_links (write_gfa pay 4 false pc_gs) = [(0, false, 1, false, 3)] /\
  map (pal_node pay 4 false pc_gu) [0; 1; 2; 3] = [false; false; true; false] /\
  gfa_links (write_gfa pay 4 false pc_gu) =
    [(0, true, 3, false, 3); (1, false, 3, false, 3); (2, false, 3, true, 3); (2, true, 3, true, 3)] /\
  find_edges pay 4 false pc_gu 2 DLeft = Some [(3, DLeft, true)] /\
  count_denoting (pal_node pay 4 false pc_gu) (gfa_links (write_gfa pay 4 false pc_gu)) (2, DLeft) (3, DLeft) = 2 /\
  once_or_twice (pal_node pay 4 false pc_gu) (gfa_links (write_gfa pay 4 false pc_gu)) (2, DLeft) (3, DLeft) /\
  find_edges pay 4 false pc_gu 0 DRight = Some [(3, DRight, true)] /\
  once_or_twice (pal_node pay 4 false pc_gu) (gfa_links (write_gfa pay 4 false pc_gu)) (0, DRight) (3, DRight).
Proof. repeat split; vm_compute; auto. Qed.
Print Assumptions PC_nonvacuous_gfa.

(* goals 5, 6 on the sharded graph: with the hash oracle (7 k + iter) mod size, size = n + 4, the index construction
   terminates; CATG is found directly from both sides, CCAT through its reverse complement (the left end ATGG of node 0),
   the censored k-mer TCCA and AAAA are absent; iterating all nodes visits the seven retained k-mers once each *)
Example PC_nonvacuous_index_iter :
  let h := fun (iter size : nat) (k : key) => (N.to_nat k * 7 + iter) mod size in
  let sz := fun n => n + 4 in
  let bg := mkbase (GraphModel.g_seqs pay pc_gs) [] [] false in
  (forall iter n k, h iter (sz n) k < sz n) /\
  (exists d, finish_serial h sz 4 bg = Some d /\
     BBHash.find_link h d [1;0;3;2]%N DLeft = Some (Some (1, DRight, false)) /\
     BBHash.find_link h d [1;0;3;2]%N DRight = Some (Some (1, DLeft, false)) /\
     BBHash.find_link h d [1;1;0;3]%N DLeft = Some (Some (0, DLeft, true)) /\
     BBHash.find_link h d [3;1;1;0]%N DLeft = Some None /\ BBHash.find_link h d [0;0;0;0]%N DLeft = Some None) /\
  map (canon_k false) (iter_all_nodes pay 4 pc_gs) =
    [[0;3;2;2]; [3;1;1;0]; [2;2;0;1]; [2;0;1;1]; [0;1;1;2]; [0;1;2;2]; [1;0;3;2]]%N /\
  retained 4 false 2 (map fst ex4_reads) = [[0;1;1;2]; [0;1;2;2]; [0;3;2;2]; [1;0;3;2]; [2;0;1;1]; [2;2;0;1]; [3;1;1;0]]%N.
Proof.
  cbv zeta. split; [intros; apply Nat.mod_upper_bound; lia|]. split.
  - eexists. split; [vm_compute; reflexivity|]. repeat split; vm_compute; reflexivity.
  - split; vm_compute; reflexivity.
Qed.
Print Assumptions PC_nonvacuous_index_iter.
