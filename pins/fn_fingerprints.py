#!/usr/bin/env python3
"""Drift report for the hand-written models (DESIGN 2.3, second half of the source pins).

For every function of /repo/src that has a hand-written Coq model, the normalised text of the function (comments
and whitespace removed) was fingerprinted when the model was last reviewed against it (pins/fn_fingerprints.json).
Each `dv check` recomputes the fingerprints from /repo's working tree and lists, in the evidence file, which
modelled functions have CHANGED TEXT since that review ("drift").  Drift is never a verdict: a changed function is
still compared with its model by the correspondence check of the run - the list only tells the reader for which
functions the model text is older than the code, i.e. where the tie rests on the correspondence alone.

usage: fn_fingerprints.py <repo> [--write]      prints {"tracked": n, "drift": [...], "missing": [...]}
"""
import hashlib, json, os, re, sys

HERE = os.path.dirname(os.path.abspath(__file__))

# (source file, enclosing `impl`/`mod` header regex or None, fn name, Coq model)
TRACKED = [
    ('kmer.rs', r'impl<T: PrimInt \+ FromPrimitive \+ Hash \+ IntHelp> Mer for IntKmer<T>', 'get', 'Packed/KmerModel.v'),
    ('kmer.rs', r'impl<T: PrimInt \+ FromPrimitive \+ Hash \+ IntHelp> Mer for IntKmer<T>', 'set_mut', 'Packed/KmerModel.v'),
    ('kmer.rs', r'impl<T: PrimInt \+ FromPrimitive \+ Hash \+ IntHelp> Mer for IntKmer<T>', 'set_slice_mut', 'Packed/KmerModel.v'),
    ('kmer.rs', r'impl<T: PrimInt \+ FromPrimitive \+ Hash \+ IntHelp> Mer for IntKmer<T>', 'rc', 'Packed/KmerModel.v'),
    ('kmer.rs', r'impl<T: PrimInt \+ FromPrimitive \+ Hash \+ IntHelp> Kmer for IntKmer<T>', 'extend_left', 'Packed/KmerModel.v'),
    ('kmer.rs', r'impl<T: PrimInt \+ FromPrimitive \+ Hash \+ IntHelp> Kmer for IntKmer<T>', 'extend_right', 'Packed/KmerModel.v'),
    ('kmer.rs', None, 'top_mask', 'Packed/KmerModel.v'),
    ('kmer.rs', None, 'bottom_mask', 'Packed/KmerModel.v'),
    ('kmer.rs', None, 'addr', 'Packed/KmerModel.v'),
    ('lib.rs', None, 'from_bytes', 'Packed/KmerModel.v'),
    ('lib.rs', None, 'from_ascii', 'Packed/KmerModel.v'),
    ('lib.rs', None, 'kmers_from_bytes', 'Packed/KmerModel.v'),
    ('lib.rs', None, 'min_rc_flip', 'Packed/KmerModel.v'),
    ('lib.rs', None, 'min_rc', 'Packed/KmerModel.v'),
    ('lib.rs', None, 'is_palindrome', 'Packed/KmerModel.v'),
    ('lib.rs', None, 'get_kmer', 'Packed/Blocks.v'),
    ('lib.rs', None, 'first_kmer', 'Algo/Iter.v'),
    ('lib.rs', None, 'last_kmer', 'Algo/Iter.v'),
    ('lib.rs', r'impl<\'a, K: Kmer, D: Mer> Iterator for KmerIter<\'a, K, D>', 'next', 'Algo/Iter.v'),
    ('lib.rs', r'impl<\'a, K: Kmer, D: Mer> Iterator for KmerExtsIter<\'a, K, D>', 'next', 'Algo/Iter.v'),
    ('lib.rs', None, 'from_single_dirs', 'Packed/ExtsModel.v'),
    ('lib.rs', None, 'merge', 'Packed/ExtsModel.v'),
    ('lib.rs', None, 'from_slice_bounds', 'Packed/ExtsModel.v'),
    ('lib.rs', None, 'get_unique_extension', 'Packed/ExtsModel.v'),
    ('lib.rs', None, 'single_dir', 'Packed/ExtsModel.v'),
    ('lib.rs', None, 'complement', 'Packed/ExtsModel.v'),
    ('lib.rs', r'impl Exts', 'rc', 'Packed/ExtsModel.v'),
    ('lib.rs', r'impl Exts', 'get', 'Packed/ExtsModel.v'),
    ('lib.rs', r'impl Exts', 'set', 'Packed/ExtsModel.v'),
    ('lib.rs', r'impl Exts', 'has_ext', 'Packed/ExtsModel.v'),
    ('lib.rs', r'impl Exts', 'num_ext_dir', 'Packed/ExtsModel.v'),
    ('lib.rs', None, 'reverse', 'Packed/ExtsModel.v'),
    ('vmer.rs', None, 'get_kmer', 'Packed/LmerModel.v'),
    ('vmer.rs', None, 'set_mut', 'Packed/LmerModel.v'),
    ('vmer.rs', None, 'set_slice_mut', 'Packed/LmerModel.v'),
    ('vmer.rs', None, 'rc', 'Packed/LmerModel.v'),
    ('vmer.rs', None, 'block_set', 'Packed/LmerModel.v'),
    ('vmer.rs', None, 'block_get', 'Packed/LmerModel.v'),
    ('vmer.rs', None, 'get', 'Packed/LmerModel.v'),
    ('dna_string.rs', None, 'from_dna_string', 'Packed/AsciiModel.v'),
    ('dna_string.rs', None, 'from_dna_only_string', 'Packed/AsciiModel.v'),
    ('dna_string.rs', None, 'from_acgt_bytes', 'Packed/AsciiModel.v'),
    ('dna_string.rs', None, 'from_acgt_bytes_hashn', 'Packed/AsciiModel.v'),
    ('dna_string.rs', None, 'push', 'Packed/DnaStringModel.v'),
    ('dna_string.rs', None, 'extend', 'Packed/DnaStringModel.v'),
    ('dna_string.rs', None, 'push_bytes', 'Packed/DnaStringModel.v'),
    ('dna_string.rs', None, 'reverse', 'Packed/DnaStringModel.v'),
    ('dna_string.rs', None, 'hamming_distance', 'Packed/DnaStringModel.v'),
    ('dna_string.rs', None, 'hamming_dist', 'Packed/SliceModel.v'),
    ('dna_string.rs', r'impl<\'a> DnaStringSlice<\'a>', 'slice', 'Packed/SliceModel.v'),
    ('dna_string.rs', r'impl<\'a> PartialEq for DnaStringSlice<\'a>', 'eq', 'Packed/SliceModel.v'),
    ('dna_string.rs', r'impl PackedDnaStringSet', 'add', 'Packed/PackedSet.v'),
    ('bitops_avx2.rs', None, 'convert_bases', 'Packed/Avx2Model.v'),
    ('bitops_avx2.rs', None, 'pack_32_bases', 'Packed/Avx2Model.v'),
    ('msp.rs', None, 'simple_scan', 'Algo/Scan.v'),
    ('msp.rs', None, 'scan', 'Algo/Scan.v'),
    ('msp.rs', None, 'msp_sequence', 'Algo/Msp.v'),
    ('filter.rs', None, 'filter_kmers', 'Algo/Filter.v'),
    ('filter.rs', r'impl<D> KmerSummarizer<D, u16> for CountFilter', 'summarize', 'Algo/Filter.v'),
    ('filter.rs', r'impl<D: Ord> KmerSummarizer<D, Vec<D>> for CountFilterSet<D>', 'summarize', 'Algo/Filter.v'),
    ('filter.rs', None, 'remove_censored_exts_sharded', 'Algo/Filter.v'),
    ('filter.rs', None, 'remove_censored_exts', 'Algo/Filter.v'),
    ('compression.rs', None, 'try_extend_node', 'Algo/Recompress.v'),
    ('compression.rs', None, 'extend_node', 'Algo/Recompress.v'),
    ('compression.rs', r'impl<\'a, \'b, K, D, S> CompressFromGraph<\'a, \'b, K, D, S>', 'build_node', 'Algo/Recompress.v'),
    ('compression.rs', r'impl<\'a, \'b, K, D, S> CompressFromGraph<\'a, \'b, K, D, S>', 'compress_graph', 'Algo/Recompress.v'),
    ('compression.rs', None, 'try_extend_kmer', 'Algo/Compress.v'),
    ('compression.rs', None, 'extend_kmer', 'Algo/Compress.v'),
    ('compression.rs', r'impl<\'a, \'b, K: Kmer, D: Clone \+ Debug, S: CompressionSpec<D>> CompressFromHash<\'a, \'b, K, D, S>', 'build_node', 'Algo/Compress.v'),
    ('compression.rs', None, 'compress_kmers', 'Algo/Compress.v'),
    ('compression.rs', None, 'compress_kmers_no_exts', 'Algo/Compress.v'),
    ('clean_graph.rs', None, 'find_bad_nodes', 'Algo/CleanGraph.v'),
    ('clean_graph.rs', None, 'test_tip', 'Algo/CleanGraph.v'),
    ('graph.rs', None, 'combine', 'Algo/Pipeline.v'),
    ('graph.rs', None, 'finish', 'Algo/BBHash.v'),
    ('graph.rs', None, 'finish_serial', 'Algo/BBHash.v'),
    ('graph.rs', None, 'find_edges', 'Algo/GraphModel.v'),
    ('graph.rs', None, 'search_kmer', 'Algo/GraphModel.v'),
    ('graph.rs', None, 'find_link', 'Algo/GraphModel.v'),
    ('graph.rs', None, 'is_compressed', 'Algo/IsCompressed.v'),
    ('graph.rs', None, 'fix_exts', 'Algo/GraphModel.v'),
    ('graph.rs', None, 'get_valid_exts', 'Algo/GraphModel.v'),
    ('graph.rs', None, 'max_path', 'Algo/GraphModel.v'),
    ('graph.rs', None, 'sequence_of_path', 'Algo/GraphModel.v'),
    ('graph.rs', None, 'max_path_beam', 'Algo/Beam.v'),
    ('graph.rs', None, 'expand_state', 'Algo/Beam.v'),
    ('graph.rs', None, 'node_to_gfa', 'Algo/Export.v'),
    ('graph.rs', None, 'write_gfa', 'Algo/Export.v'),
    ('graph.rs', None, 'to_gfa_with_tags', 'Algo/Export.v'),
    ('graph.rs', None, 'to_json_rest', 'Algo/Json.v'),
    ('graph.rs', None, 'edges_to_json', 'Algo/Json.v'),
    ('graph.rs', r'impl<\'a, K: Kmer \+ \'a, D: Debug \+ \'a> Iterator for NodeKmerIter<\'a, K, D>', 'next', 'Algo/NodeIter.v'),
    ('graph.rs', r'impl<\'a, K: Kmer \+ \'a, D: Debug \+ \'a> Iterator for NodeKmerIter<\'a, K, D>', 'nth', 'Algo/NodeIter.v'),
    ('graph.rs', r'impl<\'a, K: Kmer \+ \'a, D: Debug \+ \'a> Iterator for NodeKmerIter<\'a, K, D>', 'size_hint', 'Algo/NodeIter.v'),
    ('neighbors.rs', None, 'next', 'Algo/Neighbors.v'),
]


def strip(s):
    s = re.sub(r'//[^\n]*', '', s)
    s = re.sub(r'/\*.*?\*/', '', s, flags=re.S)
    return s


def block_after(src, start):
    i = src.find('{', start)
    if i < 0:
        return None
    depth = 0
    for j in range(i, len(src)):
        if src[j] == '{':
            depth += 1
        elif src[j] == '}':
            depth -= 1
            if depth == 0:
                return src[i:j + 1]
    return None


def locate(src, scope, name):
    base = 0
    text = src
    if scope:
        # whitespace-tolerant match of the written header
        pat = re.sub(r'\\? ', r'\\s*', scope)
        m = re.search(pat, src)
        if not m:
            return None
        text = block_after(src, m.end() - 1)
        if text is None:
            return None
    m = re.search(r'\bfn\s+%s\s*(<[^{;]*?>)?\s*\(' % re.escape(name), text)
    if not m:
        return None
    body = block_after(text, m.end())
    if body is None:
        return None
    sig = text[m.start():text.find('{', m.end())]
    return sig + body


def fingerprints(repo):
    out, missing = {}, []
    cache = {}
    for f, scope, name, model in TRACKED:
        if f not in cache:
            try:
                cache[f] = strip(open(os.path.join(repo, 'src', f)).read())
            except Exception:
                cache[f] = ''
        key = '%s::%s%s' % (f, (re.sub(r'\\', '', scope) + '::') if scope else '', name)
        t = locate(cache[f], scope, name)
        if t is None:
            missing.append(key)
            continue
        norm = re.sub(r'\s+', '', t)
        out[key] = {'sha': hashlib.sha256(norm.encode()).hexdigest()[:16], 'model': model}
    return out, missing


def main():
    repo = sys.argv[1]
    cur, missing = fingerprints(repo)
    p = os.path.join(HERE, 'fn_fingerprints.json')
    if '--write' in sys.argv:
        json.dump(cur, open(p, 'w'), indent=0, sort_keys=True)
    ref = json.load(open(p)) if os.path.exists(p) else {}
    drift = sorted('%s (model %s)' % (k, v['model']) for k, v in ref.items() if k in cur and cur[k]['sha'] != v['sha'])
    gone = sorted(k for k in ref if k not in cur)
    print(json.dumps({'tracked': len(ref), 'drift': drift, 'missing': sorted(set(missing + gone))}))


if __name__ == '__main__':
    main()
