#!/usr/bin/env python3
"""Source pins (DESIGN 2.3): regenerate coq/Gen/SourceConsts.v from /repo/src.

Only *constants* are translated: mask ladders, lookup tables, shift amounts.  Every item is located by an
anchored, whitespace-tolerant regex.  When an item can no longer be located (source reshaped) the value
of the committed fallback (pins/fallback.json) is used and the item is reported as stale; a stale pin is
never a violation by itself, the tie for that item then rests on the correspondence check only.

usage: extract_pins.py <repo> <out.v> [--status <json>] [--write-fallback]
"""
import json, os, re, sys

HERE = os.path.dirname(os.path.abspath(__file__))


def strip_comments(s):
    s = re.sub(r'//[^\n]*', '', s)
    return s


def fn_body(src, header_re, start=0):
    """text of the brace block following the first match of header_re at/after start"""
    m = re.compile(header_re).search(src, start)
    if not m:
        return None
    i = src.index('{', m.end() - 1) if src[m.end() - 1] != '{' else m.end() - 1
    depth = 0
    for j in range(i, len(src)):
        if src[j] == '{':
            depth += 1
        elif src[j] == '}':
            depth -= 1
            if depth == 0:
                return src[i + 1:j]
    return None


def lit(tok):
    """value of a rust literal: 0x.., 12u8, b'A', 'A'"""
    tok = tok.strip()
    m = re.fullmatch(r"b?'(.)'", tok)
    if m:
        return ord(m.group(1))
    tok = re.sub(r'(u8|u16|u32|u64|u128|usize|i32)$', '', tok).replace('_', '')
    return int(tok, 0)


def match_table(body, default_key='_'):
    """evaluate `match c { pat | pat => val, ... _ => val }` for c in 0..255; returns list of 256 values.
    values: int, or None for `None`, Some(x) -> x; `true/false` for matches! are handled elsewhere"""
    m = re.search(r'match\s+\w+\s*\{(.*)\}', body, re.S)
    arms = m.group(1)
    table = {}
    default = 'missing'
    for arm in re.finditer(r"((?:[^=,{}]|'.')+?)=>\s*([^,}]+)", arms):
        pats, val = arm.group(1), arm.group(2).strip()
        mm = re.fullmatch(r'Some\((.*)\)', val)
        if val == 'None':
            v = None
        elif mm:
            v = lit(mm.group(1))
        else:
            v = lit(val)
        for p in pats.split('|'):
            p = p.strip()
            if p == '_':
                default = v
            else:
                table.setdefault(lit(p), v)
    if default == 'missing':
        raise ValueError('no default arm')
    return [table.get(c, default) for c in range(256)]


def ladder(src, ty):
    body = fn_body(src, r'impl\s+IntHelp\s+for\s+%s\s*\{' % ty)
    rb = fn_body(body, r'fn\s+reverse_by_twos\s*\([^)]*\)\s*->\s*\w+\s*\{')
    steps = []
    pat = re.compile(r'\(\(\s*\w+\s*&\s*(0x[0-9A-Fa-f_]+)(?:u\d+)?\s*\)\s*<<\s*(\d+)\s*\)\s*\|\s*'
                     r'\(\(\s*\w+\s*>>\s*(\d+)\s*\)\s*&\s*(0x[0-9A-Fa-f_]+)(?:u\d+)?\s*\)')
    for m in pat.finditer(rb):
        steps.append((int(m.group(1).replace('_', ''), 16), int(m.group(2)), int(m.group(3)),
                      int(m.group(4).replace('_', ''), 16)))
    # every `r = ` / `let mut r =` assignment must have been recognised
    n_assign = len(re.findall(r'\br\s*=', rb))
    if not steps or n_assign != len(steps):
        raise ValueError('ladder shape')
    lo = fn_body(body, r'fn\s+lower_of_two\s*\(\s*\)\s*->\s*\w+\s*\{')
    lower = lit(lo.strip())
    return steps, lower


def extract(repo):
    items, stale = {}, []

    def pin(name, f):
        try:
            items[name] = f()
        except Exception as e:  # noqa
            stale.append('%s (%s)' % (name, type(e).__name__))

    def rd(p):
        return strip_comments(open(os.path.join(repo, 'src', p)).read())

    kmer = rd('kmer.rs')
    lib = rd('lib.rs')
    for w in (8, 16, 32, 64, 128):
        pin('ladder_%d' % w, lambda w=w: ladder(kmer, 'u%d' % w))
    for fn in ('bits_to_ascii', 'base_to_bits', 'dna_only_base_to_bits', 'bits_to_base'):
        pin('tbl_' + fn, lambda fn=fn: match_table(fn_body(lib, r'pub\s+fn\s+%s\s*\([^)]*\)\s*->\s*[\w<>]+\s*\{' % fn)))

    def valid():
        b = fn_body(lib, r'pub\s+fn\s+is_valid_base\s*\([^)]*\)\s*->\s*bool\s*\{')
        m = re.search(r'matches!\s*\(\s*\w+\s*,(.*)\)', b, re.S)
        vs = {lit(p) for p in m.group(1).split('|')}
        return [1 if c in vs else 0 for c in range(256)]
    pin('tbl_is_valid_base', valid)

    def compl():
        b = fn_body(lib, r'pub\s+fn\s+complement\s*\([^)]*\)\s*->\s*u8\s*\{')
        m = re.fullmatch(r'\s*\(\s*!\s*base\s*\)\s*&\s*(\w+)\s*', b)
        return lit(m.group(1))
    pin('complement_mask', compl)

    # Exts
    exts = fn_body(lib, r'impl\s+Exts\s*\{')

    def ex(fn, pat, conv=lambda m: [lit(g) for g in m.groups()]):
        def f():
            b = fn_body(exts, r'pub\s+fn\s+%s\s*\([^)]*\)\s*(?:->\s*[\w<>]+\s*)?\{' % fn)
            m = re.search(pat, b, re.S)
            if not m:
                raise ValueError(fn)
            return conv(m)
        return f
    pin('exts_from_single_dirs', ex('from_single_dirs', r'\(right\.val\s*<<\s*(\w+)\)\s*\|\s*\(left\.val\s*&\s*(\w+)\)'))
    pin('exts_merge', ex('merge', r'left\.val\s*&\s*(\w+)\s*\|\s*right\.val\s*&\s*(\w+)'))
    pin('exts_set', ex('set', r'Dir::Right\s*=>\s*(\w+)\s*,\s*Dir::Left\s*=>\s*(\w+)'))
    pin('exts_complement', ex('complement',
        r'\(v\s*&\s*(\w+)\)\s*<<\s*(\w+)\s*\|\s*\(\(v\s*>>\s*(\w+)\)\s*&\s*(\w+)\).*'
        r'\(r\s*&\s*(\w+)\)\s*<<\s*(\w+)\s*\|\s*\(\(r\s*>>\s*(\w+)\)\s*&\s*(\w+)\)'))
    pin('exts_reverse', ex('reverse', r'\(v\s*&\s*(\w+)\)\s*<<\s*(\w+)\s*\|\s*\(v\s*>>\s*(\w+)\)'))
    pin('exts_single_dir', ex('single_dir', r'self\.val\s*>>\s*(\w+).*self\.val\s*&\s*(\w+)'))

    def dirbits():
        b = fn_body(exts, r'fn\s+dir_bits\s*\([^)]*\)\s*->\s*u8\s*\{')
        m = re.search(r'self\.val\s*>>\s*(\w+).*self\.val\s*&\s*(\w+)', b, re.S)
        return [lit(g) for g in m.groups()]
    pin('exts_dir_bits', dirbits)
    extract_avx2(pin, rd)

    # msp.rs (C07/C08): field widths of MspIntervalP, the length assert of scan, simple_scan's P::k() bound,
    # the bucket casts, and the shift of Exts::from_slice_bounds
    def msp_pins():
        msp = rd('msp.rs')
        st = fn_body(msp, r'pub\s+struct\s+MspIntervalP\s*<\s*P\s*>\s*\{')
        w = {}
        for fld in ('start', 'len', 'minimizer_pos'):
            w[fld] = int(re.search(r'pub\s+%s\s*:\s*u(\d+)' % fld, st).group(1))
        scan = fn_body(msp, r'pub\s+fn\s+scan\s*\(\s*&self\s*\)\s*->\s*Vec<MspIntervalP<P>>\s*\{')
        sh = lit(re.search(r'assert!\s*\(\s*self\.seq\.len\(\)\s*<\s*1\s*<<\s*(\w+)\s*\)', scan).group(1))
        casts = [int(re.search(r'%s\s*:\s*[^,]*?as\s+u(\d+)' % f, scan).group(1)) for f in ('minimizer_pos', 'start', 'len')]
        simple = fn_body(msp, r'pub\s+fn\s+simple_scan\s*<[^{]*\{')
        maxp = lit(re.search(r'assert!\s*\(\s*P::k\(\)\s*<=\s*(\w+)\s*\)', simple).group(1))
        sb = int(re.search(r'bucket\s*:\s*slc\.bucket\(\)\s*as\s+u(\d+)', simple).group(1))
        seqf = fn_body(msp, r'pub\s+fn\s+msp_sequence\s*<[^{]*\{')
        mb = int(re.search(r'msp\.bucket\(\)\s*as\s+u(\d+)', seqf).group(1))
        fsb = fn_body(exts, r'pub\s+fn\s+from_slice_bounds\s*\([^)]*\)\s*->\s*Exts\s*\{')
        rsh = lit(re.search(r'\(\s*r_extend\s*<<\s*(\w+)\s*\)\s*\|\s*l_extend', fsb).group(1))
        # the `as` casts of the interval synthesis must be the field types
        if casts != [w['minimizer_pos'], w['start'], w['len']]:
            raise ValueError('msp casts')
        return [w['start'], w['len'], w['minimizer_pos'], sh, maxp, sb, mb, rsh]
    pin('msp', msp_pins)

    # dna_string.rs (C20): Debug of DnaStringSlice prints the bases below this length, a summary otherwise
    def slice_debug_pin():
        ds = rd('dna_string.rs')
        body = fn_body(ds, r"impl\s*<\s*'a\s*>\s*fmt::Debug\s+for\s+DnaStringSlice\s*<\s*'a\s*>\s*\{")
        return lit(re.search(r'if\s+self\.length\s*<\s*(\w+)\s*\{', body).group(1))
    pin('slice_debug_limit', slice_debug_pin)
    return items, stale


def strip_block_comments(s):
    return re.sub(r'/\*.*?\*/', '', s, flags=re.S)


def ilit(tok):
    """integer expression of the AVX2 tables: 12, 0b01_11, 0i64, `1i8 << 7` (value taken modulo 256 for i8)"""
    tok = tok.strip()
    m = re.fullmatch(r'(\w+?)(i8|i64)?\s*<<\s*(\w+)', tok)
    if m:
        v = lit(m.group(1)) << lit(m.group(3))
        return v % 256 if m.group(2) == 'i8' else v
    return lit(re.sub(r'(i8|i64)$', '', tok))


def extract_avx2(pin, rd):
    """constants of src/bitops_avx2.rs (C16).  Vectors built with _mm256_set_epi8/_mm256_set_epi64x are
    recorded in the order the arguments are written (most significant element first); the model reverses."""
    try:
        src = strip_block_comments(rd('bitops_avx2.rs'))
    except Exception:  # noqa
        src = ''
    pack = fn_body(src, r'unsafe\s+fn\s+pack_32_bases\s*\([^)]*\)\s*->\s*u64\s*\{') or ''
    conv = fn_body(src, r'unsafe\s+fn\s+convert_bases\s*\([^)]*\)\s*->\s*\([^)]*\)\s*\{') or ''

    def set_epi8(body, name):
        m = re.search(r'let\s+%s\s*=\s*_mm256_set_epi8\s*\(([^;]*?)\)\s*;' % name, body, re.S)
        xs = [ilit(t) for t in m.group(1).split(',') if t.strip()]
        if len(xs) != 32:
            raise ValueError(name)
        return xs

    def one(body, pat):
        m = re.search(pat, body, re.S)
        if not m:
            raise ValueError(pat)
        return m

    pin('avx_reverse_mask', lambda: set_epi8(pack, 'reverse_mask'))
    pin('avx_shuffle_reverse', lambda: bool(one(pack, r'let\s+reversed\s*=\s*_mm256_shuffle_epi8\s*\(\s*bases\s*,\s*reverse_mask\s*\)\s*;')) and 1)
    pin('avx_permute_imm', lambda: ilit(one(pack, r'let\s+permuted\s*=\s*_mm256_permute4x64_epi64\s*\(\s*reversed\s*,\s*(\w+)\s*\)\s*;').group(1)))
    pin('avx_slli_first', lambda: ilit(one(pack, r'let\s+first_bits\s*=\s*_mm256_slli_epi16\s*\(\s*permuted\s*,\s*(\w+)\s*\)\s*;').group(1)))
    pin('avx_slli_second', lambda: ilit(one(pack, r'let\s+second_bits\s*=\s*_mm256_slli_epi16\s*\(\s*permuted\s*,\s*(\w+)\s*\)\s*;').group(1)))
    pin('avx_unpack_order', lambda: bool(
        one(pack, r'let\s+lo_half\s*=\s*_mm256_unpacklo_epi8\s*\(\s*first_bits\s*,\s*second_bits\s*\)\s*;') and
        one(pack, r'let\s+hi_half\s*=\s*_mm256_unpackhi_epi8\s*\(\s*first_bits\s*,\s*second_bits\s*\)\s*;') and
        one(pack, r'let\s+packed_lo\s*=\s*\(\s*_mm256_movemask_epi8\s*\(\s*lo_half\s*\)\s*as\s+u32\s*\)\s*as\s+u64\s*;') and
        one(pack, r'let\s+packed_hi\s*=\s*\(\s*_mm256_movemask_epi8\s*\(\s*hi_half\s*\)\s*as\s+u32\s*\)\s*as\s+u64\s*;')) and 1)
    pin('avx_hi_shift', lambda: ilit(one(pack, r'\(\s*packed_hi\s*<<\s*(\w+)\s*\)\s*\|\s*packed_lo\s*$').group(1)))

    def hi_lut():
        blk = one(conv, r'let\s+hi_lut\s*=\s*\{(.*?)\}\s*;').group(1)
        one(blk, r'let\s+mut\s+lut_hi\s*=\s*0i64\s*;')
        terms = re.findall(r"lut_hi\s*\|=\s*1i64\s*<<\s*\(\s*\(\s*(b'.')\s*as\s+i64\s*\)\s*-\s*(\w+)\s*\)\s*;", blk)
        if not terms or len(terms) != len(re.findall(r'lut_hi\s*\|=', blk)):
            raise ValueError('hi_lut terms')
        offs = {ilit(o) for _, o in terms}
        if len(offs) != 1:
            raise ValueError('hi_lut offset')
        w = one(blk, r'_mm256_set_epi64x\s*\(([^)]*)\)\s*$').group(1)
        words = [1 if t.strip() == 'lut_hi' else (0 if ilit(t) == 0 else None) for t in w.split(',')]
        if len(words) != 4 or None in words:
            raise ValueError('hi_lut words')
        return [[lit(c) for c, _ in terms], offs.pop(), words]
    pin('avx_hi_lut', hi_lut)
    pin('avx_lo_lut', lambda: set_epi8(conv, 'lo_lut'))
    pin('avx_lut', lambda: set_epi8(conv, 'lut'))
    pin('avx_lo_mask', lambda: ilit(one(conv, r'let\s+lo_mask\s*=\s*_mm256_set1_epi8\s*\(\s*(\w+)\s*\)\s*;').group(1)))
    def hashn():
        ds = strip_block_comments(rd('dna_string.rs'))
        b = fn_body(ds, r'pub\s+fn\s+from_acgt_bytes_hashn\s*\([^)]*\)\s*->\s*DnaString\s*\{')
        m = one(b, r'let\s+v\s*=\s*match\s+c\s*\{(.*?)_\s*=>\s*\{(.*?)\}\s*\}\s*;')
        tbl = match_table('match c {' + m.group(1) + ' _ => 4u8, }')
        one(m.group(2), r'let\s+mut\s+hasher_clone\s*=\s*hasher\.clone\(\)\s*;\s*pos\.hash\(\s*&mut\s+hasher_clone\s*\)\s*;')
        md = ilit(one(m.group(2), r'\(\s*hasher_clone\.finish\(\)\s*%\s*(\w+)\s*\)\s*as\s+u8\s*$').group(1))
        one(b, r'let\s+mut\s+hasher\s*=\s*DefaultHasher::new\(\)\s*;\s*read_name\.hash\(\s*&mut\s+hasher\s*\)\s*;')
        return [tbl, md]
    pin('hashn', hashn)

    def ingest():
        ds = strip_block_comments(rd('dna_string.rs'))
        e = fn_body(ds, r'pub\s+fn\s+extend\s*\([^)]*\)\s*\{')
        fill = ilit(one(e, r'while\s+self\.len\s*%\s*(\w+)\s*!=\s*0').group(1))
        off = ilit(one(e, r'let\s+mut\s+offset\s*=\s*(\w+)\s*;').group(1))
        grp = ilit(one(e, r'for\s+_\s+in\s+0\s*\.\.\s*(\w+)\s*\{').group(1))
        lim = ilit(one(e, r'assert!\s*\(\s*b\s*<\s*(\w+)\s*\)').group(1))
        step = ilit(one(e, r'val\s*\|=\s*\(\s*b\s+as\s+u64\s*\)\s*<<\s*offset\s*;\s*offset\s*-=\s*(\w+)\s*;').group(1))
        f = fn_body(ds, r'pub\s+fn\s+from_acgt_bytes\s*\([^)]*\)\s*->\s*DnaString\s*\{')
        m = one(f, r'for\s+chunk\s+in\s+bytes\.chunks\(\s*(\w+)\s*\)\s*\{\s*if\s+chunk\.len\(\)\s*==\s*(\w+)\s*\{')
        return [fill, off, grp, lim, step, ilit(m.group(1)), ilit(m.group(2))]
    pin('ascii_ingest', ingest)
    pin('avx_srli_hi', lambda: ilit(one(conv, r'let\s+hi\s*=\s*_mm256_and_si256\s*\(\s*_mm256_srli_epi16\s*\(\s*input\s*,\s*(\w+)\s*\)\s*,\s*lo_mask\s*\)\s*;').group(1)))


def render_avx2(items):
    o = ['(* AVX2 constants of bitops_avx2.rs; set_epi8/set_epi64x vectors in written order (most significant element first) *)']
    for k in ('avx_reverse_mask', 'avx_lo_lut', 'avx_lut'):
        o.append('Definition %s : list N := %s.' % (k, nlist(items[k])))
    for k in ('avx_permute_imm', 'avx_lo_mask'):
        o.append('Definition %s : N := %d.' % (k, items[k]))
    for k in ('avx_slli_first', 'avx_slli_second', 'avx_hi_shift', 'avx_srli_hi'):
        o.append('Definition %s : nat := %d%%nat.' % (k, items[k]))
    letters, off, words = items['avx_hi_lut']
    o.append('Definition avx_hi_lut_letters : list N := %s.' % nlist(letters))
    o.append('Definition avx_hi_lut_offset : N := %d.' % off)
    o.append('(* arguments of _mm256_set_epi64x as written: 1 = lut_hi, 0 = 0i64 *)')
    o.append('Definition avx_hi_lut_words : list N := %s.' % nlist(words))
    o.append('(* from_acgt_bytes_hashn: literal match arms (4 = the hashed arm) and the modulus applied to the hash *)')
    o.append('Definition tbl_hashn_arms : list N := %s.' % nlist(items['hashn'][0]))
    o.append('Definition hashn_modulus : N := %d.' % items['hashn'][1])
    o.append('(* DnaString::extend: fill modulus, first offset, group size, assert bound, offset step; from_acgt_bytes: chunks(n), full-chunk test *)')
    for nm, v in zip(('ascii_fill_mod', 'ascii_offset0', 'ascii_group', 'ascii_assert_lt', 'ascii_offset_step', 'ascii_chunk', 'ascii_chunk_full'), items['ascii_ingest']):
        o.append('Definition %s : nat := %d%%nat.' % (nm, v))
    o.append('')
    return '\n'.join(o)


def nlist(xs):
    return '[' + '; '.join(str(x) for x in xs) + ']'


def render(items):
    o = []
    o.append('(* GENERATED by pins/extract_pins.py from /repo/src - do not edit. *)')
    o.append('From Coq Require Import NArith List.')
    o.append('Import ListNotations.')
    o.append('Open Scope N_scope.')
    o.append('')
    o.append('(* reverse_by_twos ladders: (mask_left, shl, shr, mask_right) per step;  lower_of_two *)')
    for w in (8, 16, 32, 64, 128):
        steps, lower = items['ladder_%d' % w]
        o.append('Definition ladder_%d : list (N * nat * nat * N) := [%s].' % (
            w, '; '.join('(%d, %d%%nat, %d%%nat, %d)' % s for s in steps)))
        o.append('Definition lower_of_two_%d : N := %d.' % (w, lower))
    o.append('')
    for fn in ('bits_to_ascii', 'base_to_bits', 'bits_to_base', 'is_valid_base'):
        o.append('Definition tbl_%s : list N := %s.' % (fn, nlist(items['tbl_' + fn])))
    t = items['tbl_dna_only_base_to_bits']
    o.append('(* dna_only_base_to_bits: 4 encodes None *)')
    o.append('Definition tbl_dna_only_base_to_bits : list N := %s.' % nlist([4 if x is None else x for x in t]))
    o.append('Definition complement_mask : N := %d.' % items['complement_mask'])
    o.append('')
    for k in ('exts_from_single_dirs', 'exts_merge', 'exts_set', 'exts_complement', 'exts_reverse',
              'exts_single_dir', 'exts_dir_bits'):
        o.append('Definition %s : list N := %s.' % (k, nlist(items[k])))
    o.append('')
    o.append(render_avx2(items))
    if 'msp' in items:
        o.append('(* msp.rs: MspIntervalP field widths (start, len, minimizer_pos), the shift of the length assert of scan,')
        o.append('   simple_scan P::k() bound and bucket width, msp_sequence bucket width, from_slice_bounds shift *)')
        for nm, v in zip(('msp_start_bits', 'msp_len_bits', 'msp_mpos_bits', 'msp_assert_shift', 'msp_simple_max_p',
                          'msp_simple_bucket_bits', 'msp_bucket_bits', 'msp_exts_shift'), items['msp']):
            o.append('Definition %s : N := %d.' % (nm, v))
        o.append('')
    if 'slice_debug_limit' in items:
        o.append('(* dna_string.rs: Debug of DnaStringSlice prints the bases when length < this, a summary otherwise *)')
        o.append('Definition slice_debug_limit : N := %d.' % items['slice_debug_limit'])
        o.append('')
    return '\n'.join(o)


def main():
    repo, out = sys.argv[1], sys.argv[2]
    items, stale = extract(repo)
    fb_path = os.path.join(HERE, 'fallback.json')
    if '--write-fallback' in sys.argv:
        if stale:
            sys.exit('cannot write fallback, stale: %s' % stale)
        json.dump(items, open(fb_path, 'w'), indent=0, sort_keys=True)
    fb = json.load(open(fb_path)) if os.path.exists(fb_path) else {}
    for k, v in fb.items():
        if k not in items:
            items[k] = v
    # json turns tuples into lists; normalise
    for w in (8, 16, 32, 64, 128):
        st, lo = items['ladder_%d' % w]
        items['ladder_%d' % w] = ([tuple(s) for s in st], lo)
    text = render(items)
    old = open(out).read() if os.path.exists(out) else None
    changed = old != text
    if changed:
        os.makedirs(os.path.dirname(out), exist_ok=True)
        open(out, 'w').write(text)
    status = {'stale': stale, 'changed': changed, 'items': sorted(items.keys())}
    if '--status' in sys.argv:
        json.dump(status, open(sys.argv[sys.argv.index('--status') + 1], 'w'))
    print(json.dumps(status))


if __name__ == '__main__':
    main()
