#!/bin/bash
# usage: lib/merge_branch.sh <name>   -- fetch /root/work/<name> and merge its branch into main (union-resolve append-only files)
set -e
n=$1
cd /verif
git fetch -q /root/work/$n +$n:$n
if git merge --no-edit -m "Merge $n" $n >/tmp/merge.$n.log 2>&1; then echo "merged cleanly"; else
  grep CONFLICT /tmp/merge.$n.log || true
  for f in $(git diff --name-only --diff-filter=U); do
    case $f in
      MANIFEST.json|evidence/*|DESIGN.md) git checkout --ours $f;;
      known_findings.json) echo "MANUAL: $f"; exit 1;;
      *) python3 lib/union_merge.py $f;;
    esac
    git add $f
  done
fi
# de-duplicate _CoqProject lines
python3 - <<'P'
seen=set(); out=[]
for l in open('/verif/coq/_CoqProject'):
    k=l.strip()
    if k and k in seen: continue
    seen.add(k); out.append(l)
open('/verif/coq/_CoqProject','w').writelines(out)
P
git add coq/_CoqProject
grep -n "<<<<<<<\|>>>>>>>" -r coq harness/src lib pins ocaml dv 2>/dev/null | head || true
