#!/bin/bash
# usage: goal.sh <file.v> <line>   -- show the proof state after <line> lines of the file
f=$1; n=$2
cd /verif/coq
( head -n $n $f; echo; echo "Show." ) | timeout 120 coqtop -Q . DBG -w none 2>&1 | tail -${3:-40}
