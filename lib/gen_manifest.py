#!/usr/bin/env python3
"""Regenerate MANIFEST.json from lib/props.py (single source of truth for what is claimed)."""
import json, os, subprocess, sys
ROOT = os.path.dirname(os.path.dirname(os.path.abspath(__file__)))
sys.path.insert(0, os.path.join(ROOT, 'lib'))
import props

ALL = ['C%02d' % i for i in range(1, 21)]
hooks = subprocess.run(['git', '-C', '/repo', 'log', '--format=%H %s'], stdout=subprocess.PIPE).stdout.decode().splitlines()
hook_commits = [l.split()[0] for l in hooks if 'verif hook' in l]
m = {
    'version': 1,
    'setup_cmd': './dv setup',
    'hooks': {
        'guard': 'cargo feature verif_hooks',
        'enable': 'harness/Cargo.toml depends on debruijn = { path = "/repo", features = ["verif_hooks"] }',
        'baseline_off_cmd': 'cd /repo && cargo test --workspace --no-fail-fast --offline',
        'source_commits': hook_commits,
        'add_only': True,
    },
    'engines': [{
        'name': 'coq-proof+correspondence', 'path': 'dv',
        'serves_properties': sorted(props.PROPS.keys()),
        'kind_free_text': 'Coq 8.16.1 theorems about hand-written executable Gallina models (coq/), tied to /repo on every '
                          'run by source pins (pins/) and by a differential run of the extracted model (ocaml/) against '
                          'the real code (harness/)',
    }],
    'checks': [],
    'not_applicable': [],
    'notes': 'All checks: ./dv check <id> [--tier quick|thorough]; seed from VERIF_SEED. See DESIGN.md.',
}
for pid in ALL:
    if pid in props.PROPS:
        P = props.PROPS[pid]
        m['checks'].append({
            'property_id': pid,
            'quick_cmd': './dv check %s --tier quick' % pid,
            'thorough_cmd': './dv check %s --tier thorough' % pid,
            'evidence_file': 'evidence/%s.json' % pid,
            'replay_cmd_template': './dv replay {path}',
            'engine': 'coq-proof+correspondence',
            'level_claimed': {'category': 'proof', 'text': P['level_text'], 'design_ref': P.get('design_ref', 'DESIGN.md section 5, ' + pid)},
            'level_note': P['level_note'],
            'technique': P.get('technique', 'machine-checked proof in Coq + model/implementation correspondence check'),
        })
    else:
        m['not_applicable'].append({'property_id': pid, 'reason': props.NOT_CLAIMED.get(pid, 'not yet covered by the framework in this revision')})
json.dump(m, open(os.path.join(ROOT, 'MANIFEST.json'), 'w'), indent=1)
print('claimed:', [c['property_id'] for c in m['checks']])
