#!/usr/bin/env python3
"""Seeded-change bookkeeping (DESIGN section 11).

  lib/seeded.py verify seeded/<id>            confirm the change: applies patch.diff to a scratch worktree of /repo,
                                              builds, runs the pinned suite (must pass), runs the demonstration with and
                                              without the change (must fail / pass)
  lib/seeded.py run seeded/<id> [C10,C11|all] run dv checks against the changed copy, in a scratch clone of /verif
                                              (never touches /repo or /verif's build); result -> seeded/<id>/result.json
  lib/seeded.py table                         markdown table of all recorded results

A seeded change is a directory with patch.diff (git diff of /repo), demo.rs (an integration test: copied to
tests/seeded_demo.rs, run with `cargo test --offline --test seeded_demo`; meta.json may give demo_args) and
meta.json {property, needs, summary}.  Nothing here is part of a registered check.
"""
import json, os, re, shutil, subprocess, sys, time

ROOT = os.path.dirname(os.path.dirname(os.path.abspath(__file__)))
WT = os.environ.get('SEED_WT', '/tmp/seedrepo')
CLONE = os.environ.get('SEED_CLONE', '/root/work/seedtest')
ENV = dict(os.environ, CARGO_NET_OFFLINE='true')


def sh(cmd, cwd=None, timeout=3600, env=None):
    p = subprocess.run(cmd, cwd=cwd, shell=isinstance(cmd, str), stdout=subprocess.PIPE, stderr=subprocess.STDOUT,
                       timeout=timeout, env=env or ENV)
    return p.returncode, p.stdout.decode('utf-8', 'replace')


def fresh_worktree():
    if os.path.isdir(WT):
        sh(['git', '-C', WT, 'checkout', '-q', '--', '.'])
        sh(['git', '-C', WT, 'clean', '-qfd', '-e', 'target'])
        sh(['git', '-C', WT, 'checkout', '-q', '--detach', subprocess.check_output(['git', '-C', '/repo', 'rev-parse', 'HEAD']).decode().strip()])
    else:
        rc, out = sh(['git', '-C', '/repo', 'worktree', 'add', '--detach', WT])
        if rc:
            raise SystemExit(out)


def demo(d, meta):
    os.makedirs(os.path.join(WT, 'tests'), exist_ok=True)
    shutil.copy(os.path.join(d, 'demo.rs'), os.path.join(WT, 'tests', 'seeded_demo.rs'))
    args = meta.get('demo_args', [])
    rc, out = sh(['cargo', 'test', '--offline', '--test', 'seeded_demo'] + args, cwd=WT, timeout=3600)
    return rc, out


def verify(d):
    meta = json.load(open(os.path.join(d, 'meta.json')))
    fresh_worktree()
    res = {}
    rc, out = demo(d, meta)
    res['demo_without_change'] = 'pass' if rc == 0 else 'FAIL'
    if rc:
        print(out[-2000:])
    rc, out = sh(['git', 'apply', os.path.abspath(os.path.join(d, 'patch.diff'))], cwd=WT)
    if rc:
        raise SystemExit('patch does not apply: ' + out)
    rc, out = demo(d, meta)
    benign = bool(meta.get('benign'))
    if benign:
        res['demo_with_change'] = 'pass' if rc == 0 else 'FAILS (refactor changes behaviour)'
    else:
        res['demo_with_change'] = 'fail' if rc != 0 else 'PASSES (change not demonstrated)'
    res['demo_tail'] = out[-600:]
    os.remove(os.path.join(WT, 'tests', 'seeded_demo.rs'))
    rc, out = sh('cargo test --workspace --no-fail-fast --offline -- --skip test_msp_scanner', cwd=WT, timeout=3600)
    m = re.findall(r'test result: (\w+)\. (\d+) passed; (\d+) failed', out)
    res['suite_with_change'] = m
    res['suite_ok'] = rc == 0
    ok = res['demo_without_change'] == 'pass' and res['demo_with_change'] == ('pass' if benign else 'fail') and res['suite_ok']
    res['confirmed'] = ok
    meta['verify'] = res
    meta['verified_at'] = time.strftime('%Y-%m-%d %H:%M')
    json.dump(meta, open(os.path.join(d, 'meta.json'), 'w'), indent=1)
    print(json.dumps(res, indent=1))
    return 0 if ok else 1


def run(d, which):
    meta = json.load(open(os.path.join(d, 'meta.json')))
    fresh_worktree()
    rc, out = sh(['git', 'apply', os.path.abspath(os.path.join(d, 'patch.diff'))], cwd=WT)
    if rc:
        raise SystemExit('patch does not apply: ' + out)
    # scratch clone of /verif at the committed HEAD (+ uncommitted dv/lib for convenience)
    if not os.path.isdir(CLONE):
        sh(['git', 'clone', '-q', ROOT, CLONE])
    sh(['git', '-C', CLONE, 'fetch', '-q', ROOT, 'main'])
    sh(['git', '-C', CLONE, 'checkout', '-q', '-f', 'FETCH_HEAD'])
    sys.path.insert(0, os.path.join(CLONE, 'lib'))
    claimed = sorted(f[:-5] for f in os.listdir(os.path.join(CLONE, 'lib', 'props')) if f.endswith('.json'))
    props = claimed if which == 'all' else which.split(',')
    env = dict(ENV, DV_REPO=WT)
    results = {}
    for p in props:
        t0 = time.time()
        rc, out = sh(['./dv', 'check', p, '--tier', os.environ.get('SEED_TIER', 'quick')], cwd=CLONE, timeout=7200, env=env)
        lines = [l for l in out.splitlines() if l.startswith(('VIOLATION', 'KNOWN-FINDING', p + ' '))]
        vio = [l for l in lines if l.startswith('VIOLATION')]
        what = []
        for v in vio:
            m = re.search(r'replay=(\S+)', v)
            if m and os.path.exists(m.group(1)):
                try:
                    r = json.load(open(m.group(1)))
                    what.append({'kind': r.get('kind'), 'what': str(r.get('what'))[:400], 'nofail': v.endswith('no-failing-input-found')})
                except Exception:
                    pass
        results[p] = {'exit': rc, 'violations': len(vio), 'detail': what, 'summary': lines[-1] if lines else out[-300:], 'wall_s': round(time.time() - t0)}
        print(p, 'exit', rc, 'violations', len(vio), [w['kind'] for w in what], flush=True)
    sh(['git', '-C', WT, 'checkout', '-q', '--', '.'])
    # the clone's generated constants must not survive into the next run
    sh(['git', '-C', CLONE, 'checkout', '-q', '--', '.'])
    meta.setdefault('runs', {})
    head = subprocess.check_output(['git', '-C', CLONE, 'rev-parse', '--short', 'HEAD']).decode().strip()
    meta['runs'][head] = results
    tgt = meta.get('property')
    meta['detected_by'] = sorted(p for p, r in results.items() if r['exit'] != 0)
    meta['detected_by_target'] = bool(results.get(tgt, {}).get('exit'))
    json.dump(meta, open(os.path.join(d, 'meta.json'), 'w'), indent=1)
    return 0


def table():
    rows = []
    sd = os.path.join(ROOT, 'seeded')
    for n in sorted(os.listdir(sd)):
        mp = os.path.join(sd, n, 'meta.json')
        if not os.path.exists(mp):
            continue
        m = json.load(open(mp))
        runs = m.get('runs', {})
        # the most recent result of every property that was ever run against this change
        last = {}
        for r in runs.values():
            last.update(r)
        det = [p for p, r in last.items() if r['exit'] != 0]
        kinds = sorted({w['kind'] + ('(no-input)' if w['nofail'] else '') for p in det for w in last[p]['detail']})
        tgt = m.get('property')
        if det and tgt not in det and tgt in last:
            kinds.append('target %s missed' % tgt)
        if m.get('benign'):
            caught = ('**FALSE ALARM**: ' + ', '.join(det)) if det else ('none of %d checks (as it should be)' % len(last) if last else 'not run yet')
        else:
            caught = ', '.join(det) or '**missed**'
        rows.append('| %s | %s | %s | %s | %s | %s |' % (n, m.get('property'), m.get('summary', '')[:110].replace('|', '/'),
                                                   m.get('needs', '')[:90].replace('|', '/'), caught, ', '.join(kinds)))
    print('| id | breaks | change | needs | caught by | how |\n|---|---|---|---|---|---|')
    print('\n'.join(rows))


if __name__ == '__main__':
    a = sys.argv[1:]
    if a and a[0] == 'verify':
        sys.exit(verify(a[1]))
    if a and a[0] == 'run':
        sys.exit(run(a[1], a[2] if len(a) > 2 else json.load(open(os.path.join(a[1], 'meta.json')))['property']))
    if a and a[0] == 'table':
        sys.exit(table())
    print(__doc__)
