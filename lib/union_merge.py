#!/usr/bin/env python3
"""Resolve git conflict markers by keeping both sides (ours then theirs). For append-only shared files."""
import re, sys
for p in sys.argv[1:]:
    s = open(p).read()
    out = re.sub(r'<<<<<<< [^\n]*\n(.*?)=======\n(.*?)>>>>>>> [^\n]*\n', lambda m: m.group(1) + m.group(2), s, flags=re.S)
    open(p, 'w').write(out)
    print(p, 'resolved')
