#!/usr/bin/env python3
"""Regenerate the machine-maintained parts of DESIGN.md (between <!-- BEGIN:x --> / <!-- END:x --> markers):
status (section 0: per-property table from lib/props + evidence, known findings) and seeded (section 11 table)."""
import glob, io, json, os, re, subprocess, sys, contextlib
ROOT = os.path.dirname(os.path.dirname(os.path.abspath(__file__)))
sys.path.insert(0, os.path.join(ROOT, 'lib'))


def status():
    o = []
    props = {os.path.basename(f)[:-5]: json.load(open(f)) for f in sorted(glob.glob(os.path.join(ROOT, 'lib/props/C*.json')))}
    titles = {json.loads(l)['id']: json.loads(l)['title'] for l in open(os.path.join(ROOT, 'properties.jsonl'))}
    o.append('| prop | title | registered | obligations (Qed in cone) | cases per quick run | theorems (Properties/Cxx.v and its extra statement files) |')
    o.append('|---|---|---|---|---|---|')
    for i in range(1, 21):
        pid = 'C%02d' % i
        ev = {}
        ep = os.path.join(ROOT, 'evidence', pid + '.json')
        if os.path.exists(ep):
            ev = json.load(open(ep)).get('coverage', {})
        P = props.get(pid)
        if P:
            th = []
            for rel in ['Properties/%s.v' % pid] + list(P.get('extra_propfiles') or []):
                pf = os.path.join(ROOT, 'coq', rel)
                if os.path.exists(pf):
                    th += re.findall(r'^(?:Theorem|Corollary|Lemma)\s+(\w+)', open(pf).read(), re.M)
            names = ', '.join(th[:12]) + (' … (%d statements)' % len(th) if len(th) > 12 else '')
            o.append('| %s | %s | yes | %s | %s | %s |' % (pid, titles[pid], ev.get('obligations', '?'), ev.get('evaluations', '?'), names))
        else:
            o.append('| %s | %s | **no** (listed under not_applicable with the reason) | | | |' % (pid, titles[pid]))
    o.append('')
    o.append('Known findings (`known_findings.json`; `open` = recorded, `fixed:<commit>` = repaired in /repo by a `fix:` commit):')
    o.append('')
    o.append('| id | prop | status | what |')
    o.append('|---|---|---|---|')
    for k in json.load(open(os.path.join(ROOT, 'known_findings.json')))['findings']:
        o.append('| %s | %s | %s | %s |' % (k.get('id', ''), k['property'], k['status'], k['what'].replace('|', '/')))
    return '\n'.join(o)


def seeded():
    import seeded as sd
    buf = io.StringIO()
    with contextlib.redirect_stdout(buf):
        sd.table()
    return buf.getvalue().strip()


def main():
    p = os.path.join(ROOT, 'DESIGN.md')
    s = open(p).read()
    for name, fn in (('status', status), ('seeded', seeded)):
        b, e = '<!-- BEGIN:%s -->' % name, '<!-- END:%s -->' % name
        if b in s and e in s:
            s = s[:s.index(b) + len(b)] + '\n' + fn() + '\n' + s[s.index(e):]
    open(p, 'w').write(s)


if __name__ == '__main__':
    main()
