"""Per-property configuration of the checks (what is proved, what the correspondence explores)."""

TRUSTED = [
    'Coq 8.16.1 kernel incl. its bytecode VM (vm_compute); native_compute not used',
    'no axioms declared; Print Assumptions of every property theorem is recorded under print_assumptions',
    'hand-written Gallina models of the Rust code (coq/Packed, coq/Algo) - modelled, not verified; tied to /repo by '
    'the source pins (pins/extract_pins.py -> coq/Gen/SourceConsts.v) and by this correspondence run',
    'extraction: ExtrOcamlBasic only (bool, option, unit, list, prod, sumbool, sumor mapped; andb/orb inlined); '
    'nat/positive/N/Z/ascii/string stay inductive; OCaml 4.13.1; ocaml/driver.ml (parser/printer/comparison)',
    'Rust harness /verif/harness (generators, catch_unwind, serialisation) and the dv orchestrator',
]


def is_spec_op(op):
    """ops whose model side is a Layer-S specification function or a verified checker: a mismatch on them is a
    failing input for the property itself, not just a broken correspondence"""
    return op.startswith(('s.', 'chk.'))


NOT_CLAIMED = {}

PROPS = {
    'C10': {
        'level_text': 'Coq theorems (Properties/C10.v): for each of the 19 shipped k-mer configurations, every storage value and '
                      'every in-range argument, each modelled operation (get, set_mut, set_slice_mut, extend_left/right, rc, '
                      'to/from_u64, hamming_dist, at/gc_count, from_bytes/ascii, to_string, kmers_from_bytes/ascii) succeeds and '
                      'decodes to the same operation on the plain K-letter list. Values are universally quantified (symbolic '
                      'bit-vector reflection); configurations x positions x run lengths are enumerated by vm_compute. The model '
                      'is tied to the code by regenerated mask/table constants and a differential run on >10^6 cases.',
        'level_note': 'Trusted: Coq kernel+VM; the hand transcription of kmer.rs/lib.rs into coq/Packed/KmerModel.v (checked only by '
                      'the differential run and the pins); extraction (ExtrOcamlBasic); harness. No axioms.',
        'technique': 'reflective symbolic bit-vector sweep lifted to all values + list induction (Coq), differential correspondence',
        'rule': 'all 19 shipped k-mer types; storage values: exhaustive for K<=6 (all 4^K), else structured (all-A, all-T, '
                'alternating, single bit, single lane, palindromes) + random; every op at every position/base/run (K<=8 or '
                'thorough) or a spread; non-trivial = the k-mer has at least two different bases',
        'theorems': [],
        'assumptions': ['IntKmer/VarIntKmer code is as transcribed in coq/Packed/KmerModel.v (checked by this run on the '
                        'generated cases only)'],
    },
    'C11': {
        'level_text': 'Coq theorems (Properties/C11.v): every finite in-range history of value-producing operations (empty, '
                      'from_u64/bytes/ascii, extend_left/right, rc, set, packed set, min_rc) on any of the 19 shipped types succeeds, '
                      'keeps the unused lanes zero and spells what the same history does to the plain string (induction over the '
                      'history on top of the C10 refinements); hence ==, cmp and the derived Hash input of any two results are those '
                      'of the strings (compare_lex by induction on base-4 digits, no sweep); sort/dedup/membership corollaries.',
        'level_note': 'Hash is proved about the bytes fed to the Hasher (the storage word, little endian); collisions of the hasher '
                      'itself are outside the property. boomphf lookup is exercised by the harness only. Model transcription trusted '
                      'as for C10. No axioms.',
        'technique': 'invariant (wf) + refinement by induction over operation histories (Coq), differential correspondence',
        'rule': 'random histories (1-40 ops) per type from every constructor; for each a second route to the same string (K extends, '
                'per-position sets in random order, packed runs with garbage payload, rc routes, lower-case ascii) plus near misses; '
                '==, cmp, recorded Hasher input, sort+dedup, binary_search and BoomHashMap lookups compared with the list spec; '
                'non-trivial = all cases (every history has >= 1 op)',
        'assumptions': ['derive(PartialEq, Ord, Hash) act on the storage field only (PhantomData contributes nothing) - checked by '
                        'the recorded hasher input and cmp results on the generated cases'],
    },
    'C16': {
        'level_text': 'Coq theorems (Properties/C16.v), all closed under the global context: convert_bases = (table map, all-valid '
                      'flag) for every 32-byte vector (all 65 536 values of a 16-bit lane at both lane halves and both 128-bit '
                      'lanes by vm_compute, lifted through per-intrinsic byte lemmas); pack_32_bases = big-endian 2-bit packing for '
                      'every vector of values < 4 (the kernel run on 32 symbolic bytes, SymBV reflection); hence for every byte '
                      'string from_acgt_bytes on the AVX2 path = on the scalar path = Some(packing of map ascii_base bytes) with the '
                      'representation invariant (ceil(len/32) blocks, unused lanes zero); from_dna_string agrees on ASCII text; '
                      'to_ascii_vec/Display of the result = upper-cased input with non-ACGT replaced by A; from_dna_only_string '
                      '(model of the repaired code, fixes/F6) = exactly the maximal ACGT runs for every text, the unrepaired code '
                      'only for ASCII text and refuted on "G\u0141G"; from_acgt_bytes_hashn, for any hasher H: ACGT untouched, '
                      'every other position = H(name,pos) mod 4 < 4, a function of (name,pos) only. Totality: every theorem '
                      'states Some (no panic).',
        'level_note': 'Trusted: the transcription of the AVX2 intrinsics from the Intel pseudo-code (coq/Packed/Avx2Model.v) - '
                      'validated only by running both paths on this CPU (hook H2 forces the scalar path); the hand-written '
                      'models of dna_string.rs; DefaultHasher is a Section variable H (its observed values are fed to the model '
                      'in the correspondence run). All vector constants, byte tables and loop constants are regenerated from the '
                      'source (pins) so the kernel lemmas are re-proved against the current constants. No axioms.',
        'technique': 'exhaustive vm_compute over the 65 536 byte pairs of a 16-bit lane lifted to all vectors, reflective '
                     'symbolic bit-vector proof of the packing kernel, list induction; differential correspondence',
        'rule': 'all 256 byte values at each of the 32 lanes of a vector block (8192 blocks) and in the scalar tail; random blocks; '
                'every length 0..130 in four content classes plus 255..4113; both paths (AVX2 and, through hook H2, scalar; the op '
                'name records which path ran); storage words + len read through serde; str constructors on ASCII and non-ASCII '
                'text; hashed-N constructor: determinism (two calls), ACGT untouched, range, locality under edits, and the '
                'independently recomputed DefaultHasher values fed to the model; non-trivial = the input has a byte outside '
                'upper-case ACGT (lower case, invalid, non-ASCII) or is longer than one block',
        'profiles': ['debug', 'release'],
        'theorems': ['C16_convert_lane_pair', 'C16_convert_bases_spec', 'C16_pack_spec', 'C16_from_acgt_paths_agree',
                     'C16_stored_bases', 'C16_from_acgt_inv', 'C16_agree_with_str', 'C16_render_roundtrip', 'C16_dna_only_runs',
                     'C16_dna_only_runs_bytes', 'C16_runs_maximal', 'C16_runs_unique', 'C16_dna_only_runs_old', 'C16_dna_only_nonascii_refuted',
                     'C16_hashn_spec', 'C16_hashn_local', 'C16_hashn_checkers'],
        'trusted_extra': ['Intel AVX2 intrinsic semantics as transcribed in coq/Packed/Avx2Model.v (validated only by the runs on this CPU)',
                          'std::collections::hash_map::DefaultHasher is a fixed function of the bytes fed (Section variable H)'],
        'assumptions': ['Intel AVX2 intrinsic semantics are as transcribed in coq/Packed/Avx2Model.v',
                        'std DefaultHasher is a fixed function of the bytes fed (Section variable H)',
                        'from_dna_only_string is modelled after the repair fixes/F6-from_dna_only_string.patch; until it is applied '
                        'to /repo the check reports the known finding F6 on non-ASCII text'],
    },
}
