"""Per-property configuration of the checks (what is proved, what the correspondence explores)."""

TRUSTED = [
    'Coq 8.16.1 kernel incl. its bytecode VM (vm_compute); native_compute not used',
    'no axioms declared; Print Assumptions of every property theorem is recorded under print_assumptions',
    'hand-written Gallina models of the Rust code (coq/Packed, coq/Algo) - modelled, not verified; tied to /repo by '
    'the source pins (pins/extract_pins.py -> coq/Gen/SourceConsts.v) and by this correspondence run',
    'extraction: ExtrOcamlBasic only (bool, option, unit, list, prod, sumbool, sumor mapped; andb/orb inlined); '
    'nat/positive/N/Z/ascii/string stay inductive; OCaml 4.13.1; ocaml/driver.ml (parser/printer/comparison)',
    'Rust harness /verif/harness (generators, catch_unwind, serialisation) and the dv orchestrator',
]


def is_spec_op(op):
    """ops whose model side is a Layer-S specification function or a verified checker: a mismatch on them is a
    failing input for the property itself, not just a broken correspondence"""
    return op.startswith(('s.', 'chk.'))


NOT_CLAIMED = {}

PROPS = {
    'C10': {
        'level_text': 'Coq theorems (Properties/C10.v): for each of the 19 shipped k-mer configurations, every storage value and '
                      'every in-range argument, each modelled operation (get, set_mut, set_slice_mut, extend_left/right, rc, '
                      'to/from_u64, hamming_dist, at/gc_count, from_bytes/ascii, to_string, kmers_from_bytes/ascii) succeeds and '
                      'decodes to the same operation on the plain K-letter list. Values are universally quantified (symbolic '
                      'bit-vector reflection); configurations x positions x run lengths are enumerated by vm_compute. The model '
                      'is tied to the code by regenerated mask/table constants and a differential run on >10^6 cases.',
        'level_note': 'Trusted: Coq kernel+VM; the hand transcription of kmer.rs/lib.rs into coq/Packed/KmerModel.v (checked only by '
                      'the differential run and the pins); extraction (ExtrOcamlBasic); harness. No axioms.',
        'technique': 'reflective symbolic bit-vector sweep lifted to all values + list induction (Coq), differential correspondence',
        'rule': 'all 19 shipped k-mer types; storage values: exhaustive for K<=6 (all 4^K), else structured (all-A, all-T, '
                'alternating, single bit, single lane, palindromes) + random; every op at every position/base/run (K<=8 or '
                'thorough) or a spread; non-trivial = the k-mer has at least two different bases',
        'theorems': [],
        'assumptions': ['IntKmer/VarIntKmer code is as transcribed in coq/Packed/KmerModel.v (checked by this run on the '
                        'generated cases only)'],
    },
    'C11': {
        'level_text': 'Coq theorems (Properties/C11.v): every finite in-range history of value-producing operations (empty, '
                      'from_u64/bytes/ascii, extend_left/right, rc, set, packed set, min_rc) on any of the 19 shipped types succeeds, '
                      'keeps the unused lanes zero and spells what the same history does to the plain string (induction over the '
                      'history on top of the C10 refinements); hence ==, cmp and the derived Hash input of any two results are those '
                      'of the strings (compare_lex by induction on base-4 digits, no sweep); sort/dedup/membership corollaries.',
        'level_note': 'Hash is proved about the bytes fed to the Hasher (the storage word, little endian); collisions of the hasher '
                      'itself are outside the property. boomphf lookup is exercised by the harness only. Model transcription trusted '
                      'as for C10. No axioms.',
        'technique': 'invariant (wf) + refinement by induction over operation histories (Coq), differential correspondence',
        'rule': 'random histories (1-40 ops) per type from every constructor; for each a second route to the same string (K extends, '
                'per-position sets in random order, packed runs with garbage payload, rc routes, lower-case ascii) plus near misses; '
                '==, cmp, recorded Hasher input, sort+dedup, binary_search and BoomHashMap lookups compared with the list spec; '
                'non-trivial = all cases (every history has >= 1 op)',
        'assumptions': ['derive(PartialEq, Ord, Hash) act on the storage field only (PhantomData contributes nothing) - checked by '
                        'the recorded hasher input and cmp results on the generated cases'],
    },
    'C19': {
        'level_text': 'Coq theorems (Properties/C19.v) about a model of boomphf 0.6.0 written from its vendored source '
                      '(coq/Algo/BBHash.v: Mphf::new as a function, Mphf::new_parallel as a relation over a small-step interleaving '
                      'semantics - one thread per key running the atomic steps of Context::find_collisions, a Relaxed read of collide may '
                      'return a stale false; then the steps of Context::filter). Proved for every number of keys, slots and steps: '
                      'level_schedule_independent (invariants over all reachable states: after any complete interleaving a[s] = "some key on s", '
                      'collide[s] = "two or more keys on s"); filter_schedule_independent; level_par_eq_serial, mphf_parallel_eq_serial '
                      '(induction over levels, incl. the MAX_ITERS panic), finish_eq_finish_serial (structural equality of base graph, '
                      'both MPHFs and both key/value tables, hence of every query and of every run); mphf_perfect (total, injective, '
                      'onto [0,n), and every hit of a foreign item lands on some key\'s value) when construction terminates on duplicate-free '
                      'keys; lookup_exact (get never panics, Some v iff (k,v) stored); search_kmer_exact / find_link_exact(_parallel): '
                      'find_link = the list-level specification "the node that starts/ends with the k-mer (or its rc)". Strengthening '
                      '(mphf_parallel_any_collect_order, mphf_key_order_irrelevant): the MPHF is a function of the key SET, so the result '
                      'is the serial one even if collect() returned the redo keys in any order.',
        'level_note': 'proof for the model; PARTIAL for the runtime: NOT covered by the proof are (1) what rayon really does - work splitting, '
                      'the join between the two phases being a synchronisation (filter_map().collect() preserving input order is assumed by '
                      'finish_eq_finish_serial but shown unnecessary by mphf_parallel_any_collect_order), (2) hardware memory ordering beyond "fetch_or/fetch_and are linearizable per bit and a Relaxed load of collide '
                      'may be stale", (3) boomphf\'s word-level code: 64-bit word packing, rank samples every 512 bits, count_ones, fastmod, '
                      'wyhash, the f64 level size, and the in-place cycle sort of create_map (modelled by its result keys[hash k] = k). '
                      'These are exercised only by the runs: finish() under pools of 1,2,3,4,8,16 threads, repeated, compared byte for byte '
                      '(serde_json) and query by query with finish_serial(); level bit vectors and table order predicted by the model from '
                      'the recomputed wyhash slots; the interleaving semantics itself run under random schedules against the real level 0.',
        'technique': 'invariants over the reachable states of a small-step interleaving semantics + induction over levels + counting '
                     'argument for perfectness (Coq); differential run: finish() under thread pools vs finish_serial(), list-level lookup '
                     'specification, BBHash model fed with recomputed wyhash slots',
        'rule': 'graphs from structured read sets through filter_kmers/compress_kmers_with_hash (K=5,6,8,16,32,48; stranded and not; '
                'both compression specs) and directly added random nodes (one k-mer per node, or K..K+24 bases), 0 to 2*10^4 nodes (quick) / '
                '4*10^5 (thorough); each finished under pools of 1,2,3,4,8,16 threads, 3-4 times each; queries: all four end k-mers of every '
                'node and their reverse complements in both directions, random k-mers and one-base neighbours of ends (2n+40, 10^4 for large '
                'graphs); non-trivial = at least 2 nodes and at least one slot collision (a second BBHash level)',
        'theorems': ['C19_level_schedule_independent', 'C19_filter_schedule_independent', 'C19_level_par_eq_serial',
                     'C19_mphf_parallel_eq_serial', 'C19_finish_eq_finish_serial', 'C19_mphf_perfect', 'C19_lookup_exact',
                     'C19_search_kmer_exact', 'C19_find_link_exact', 'C19_find_link_exact_parallel',
                     'C19_mphf_parallel_any_collect_order', 'C19_mphf_key_order_irrelevant'],
        'trusted_extra': ['rayon: for_each returns after all items are processed and publishes their writes (join = synchronisation); '
                          'filter_map(..).collect::<Vec<_>>() on an indexed parallel iterator preserves input order',
                          'atomics: fetch_or / fetch_and on AtomicU64 are linearizable per location; a Relaxed load may return a stale value '
                          '(modelled for collide, which is read while it is written; a is only accessed by read-modify-write)',
                          'boomphf 0.6.0 as vendored (Cargo.lock checksum); MAX_ITERS = 100 and gamma = 1.7 are read from that source by hand',
                          'the harness recomputation of boomphf\'s private hashmod with the wyhash crate (checked by agreement of bb.index)'],
        'assumptions': ['hypotheses of the theorems: a slot is below the level size (h iter (sz n) k < sz n: fastmod / %); keys are '
                        'duplicate-free (boomphf precondition; graphs: no two nodes share a first k-mer, nor a last k-mer) and construction '
                        'terminated within MAX_ITERS levels (otherwise both builders panic alike - proved: same None)',
                        'graph.rs finish/finish_serial/search_kmer/find_link are as transcribed in coq/Algo/BBHash.v (checked by this run)'],
    },
}
