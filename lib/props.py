"""Per-property configuration of the checks (what is proved, what the correspondence explores)."""

TRUSTED = [
    'Coq 8.16.1 kernel incl. its bytecode VM (vm_compute); native_compute not used',
    'no axioms declared; Print Assumptions of every property theorem is recorded under print_assumptions',
    'hand-written Gallina models of the Rust code (coq/Packed, coq/Algo) - modelled, not verified; tied to /repo by '
    'the source pins (pins/extract_pins.py -> coq/Gen/SourceConsts.v) and by this correspondence run',
    'extraction: ExtrOcamlBasic only (bool, option, unit, list, prod, sumbool, sumor mapped; andb/orb inlined); '
    'nat/positive/N/Z/ascii/string stay inductive; OCaml 4.13.1; ocaml/driver.ml (parser/printer/comparison)',
    'Rust harness /verif/harness (generators, catch_unwind, serialisation) and the dv orchestrator',
]


def is_spec_op(op):
    """ops whose model side is a Layer-S specification function or a verified checker: a mismatch on them is a
    failing input for the property itself, not just a broken correspondence"""
    return op.startswith(('s.', 'chk.'))


NOT_CLAIMED = {}

PROPS = {
    'C10': {
        'level_text': 'Coq theorems (Properties/C10.v): for each of the 19 shipped k-mer configurations, every storage value and '
                      'every in-range argument, each modelled operation (get, set_mut, set_slice_mut, extend_left/right, rc, '
                      'to/from_u64, hamming_dist, at/gc_count, from_bytes/ascii, to_string, kmers_from_bytes/ascii) succeeds and '
                      'decodes to the same operation on the plain K-letter list. Values are universally quantified (symbolic '
                      'bit-vector reflection); configurations x positions x run lengths are enumerated by vm_compute. The model '
                      'is tied to the code by regenerated mask/table constants and a differential run on >10^6 cases.',
        'level_note': 'Trusted: Coq kernel+VM; the hand transcription of kmer.rs/lib.rs into coq/Packed/KmerModel.v (checked only by '
                      'the differential run and the pins); extraction (ExtrOcamlBasic); harness. No axioms.',
        'technique': 'reflective symbolic bit-vector sweep lifted to all values + list induction (Coq), differential correspondence',
        'rule': 'all 19 shipped k-mer types; storage values: exhaustive for K<=6 (all 4^K), else structured (all-A, all-T, '
                'alternating, single bit, single lane, palindromes) + random; every op at every position/base/run (K<=8 or '
                'thorough) or a spread; non-trivial = the k-mer has at least two different bases',
        'theorems': [],
        'assumptions': ['IntKmer/VarIntKmer code is as transcribed in coq/Packed/KmerModel.v (checked by this run on the '
                        'generated cases only)'],
    },
    'C11': {
        'level_text': 'Coq theorems (Properties/C11.v): every finite in-range history of value-producing operations (empty, '
                      'from_u64/bytes/ascii, extend_left/right, rc, set, packed set, min_rc) on any of the 19 shipped types succeeds, '
                      'keeps the unused lanes zero and spells what the same history does to the plain string (induction over the '
                      'history on top of the C10 refinements); hence ==, cmp and the derived Hash input of any two results are those '
                      'of the strings (compare_lex by induction on base-4 digits, no sweep); sort/dedup/membership corollaries.',
        'level_note': 'Hash is proved about the bytes fed to the Hasher (the storage word, little endian); collisions of the hasher '
                      'itself are outside the property. boomphf lookup is exercised by the harness only. Model transcription trusted '
                      'as for C10. No axioms.',
        'technique': 'invariant (wf) + refinement by induction over operation histories (Coq), differential correspondence',
        'rule': 'random histories (1-40 ops) per type from every constructor; for each a second route to the same string (K extends, '
                'per-position sets in random order, packed runs with garbage payload, rc routes, lower-case ascii) plus near misses; '
                '==, cmp, recorded Hasher input, sort+dedup, binary_search and BoomHashMap lookups compared with the list spec; '
                'non-trivial = all cases (every history has >= 1 op)',
        'assumptions': ['derive(PartialEq, Ord, Hash) act on the storage field only (PhantomData contributes nothing) - checked by '
                        'the recorded hasher input and cmp results on the generated cases'],
    },
    'C05': {
        'level_text': 'PROVISIONAL (proofs in progress): Coq model of filter_kmers (coq/Algo/Filter.v) with pass planning, buckets, '
                      'stable sort + grouping and the two shipped summarizers; ranges_tile proved; reference grouping checked '
                      'against the implementation on every generated case.',
        'level_note': 'Trusted: model transcription of filter.rs / KmerExtsIter / Exts; std stable sort and itertools group_by '
                      '(modelled as insertion sort + adjacent grouping); BoomHashMap2 (only read back). No axioms.',
        'technique': 'list induction over a sort/group pipeline + finite sweep of the pass plans (Coq), differential correspondence',
        'rule': 'read sets from a motif grammar; non-trivial = some (canonical) k-mer observed at least twice; f.filter additionally >= 2 passes',
        'assumptions': [],
    },
}
