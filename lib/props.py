"""Per-property configuration of the checks (what is proved, what the correspondence explores)."""

TRUSTED = [
    'Coq 8.16.1 kernel incl. its bytecode VM (vm_compute); native_compute not used',
    'no axioms declared; Print Assumptions of every property theorem is recorded under print_assumptions',
    'hand-written Gallina models of the Rust code (coq/Packed, coq/Algo) - modelled, not verified; tied to /repo by '
    'the source pins (pins/extract_pins.py -> coq/Gen/SourceConsts.v) and by this correspondence run',
    'extraction: ExtrOcamlBasic only (bool, option, unit, list, prod, sumbool, sumor mapped; andb/orb inlined); '
    'nat/positive/N/Z/ascii/string stay inductive; OCaml 4.13.1; ocaml/driver.ml (parser/printer/comparison)',
    'Rust harness /verif/harness (generators, catch_unwind, serialisation) and the dv orchestrator',
]


def is_spec_op(op):
    """ops whose model side is a Layer-S specification function or a verified checker: a mismatch on them is a
    failing input for the property itself, not just a broken correspondence"""
    return op.startswith(('s.', 'chk.'))


NOT_CLAIMED = {}

# one JSON file per property under lib/props/ (keeps concurrent additions conflict-free)
import glob as _glob, json as _json, os as _os
PROPS = {}
for _f in sorted(_glob.glob(_os.path.join(_os.path.dirname(_os.path.abspath(__file__)), 'props', 'C*.json'))):
    PROPS[_os.path.basename(_f)[:-5]] = _json.load(open(_f))
