"""Per-property configuration of the checks (what is proved, what the correspondence explores)."""

TRUSTED = [
    'Coq 8.16.1 kernel incl. its bytecode VM (vm_compute); native_compute not used',
    'no axioms declared; Print Assumptions of every property theorem is recorded under print_assumptions',
    'hand-written Gallina models of the Rust code (coq/Packed, coq/Algo) - modelled, not verified; tied to /repo by '
    'the source pins (pins/extract_pins.py -> coq/Gen/SourceConsts.v) and by this correspondence run',
    'extraction: ExtrOcamlBasic only (bool, option, unit, list, prod, sumbool, sumor mapped; andb/orb inlined); '
    'nat/positive/N/Z/ascii/string stay inductive; OCaml 4.13.1; ocaml/driver.ml (parser/printer/comparison)',
    'Rust harness /verif/harness (generators, catch_unwind, serialisation) and the dv orchestrator',
]


def is_spec_op(op):
    """ops whose model side is a Layer-S specification function or a verified checker: a mismatch on them is a
    failing input for the property itself, not just a broken correspondence"""
    return op.startswith(('s.', 'chk.'))


NOT_CLAIMED = {}

PROPS = {
    'C10': {
        'level_text': 'Coq theorems (Properties/C10.v): for each of the 19 shipped k-mer configurations, every storage value and '
                      'every in-range argument, each modelled operation (get, set_mut, set_slice_mut, extend_left/right, rc, '
                      'to/from_u64, hamming_dist, at/gc_count, from_bytes/ascii, to_string, kmers_from_bytes/ascii) succeeds and '
                      'decodes to the same operation on the plain K-letter list. Values are universally quantified (symbolic '
                      'bit-vector reflection); configurations x positions x run lengths are enumerated by vm_compute. The model '
                      'is tied to the code by regenerated mask/table constants and a differential run on >10^6 cases.',
        'level_note': 'Trusted: Coq kernel+VM; the hand transcription of kmer.rs/lib.rs into coq/Packed/KmerModel.v (checked only by '
                      'the differential run and the pins); extraction (ExtrOcamlBasic); harness. No axioms.',
        'technique': 'reflective symbolic bit-vector sweep lifted to all values + list induction (Coq), differential correspondence',
        'rule': 'all 19 shipped k-mer types; storage values: exhaustive for K<=6 (all 4^K), else structured (all-A, all-T, '
                'alternating, single bit, single lane, palindromes) + random; every op at every position/base/run (K<=8 or '
                'thorough) or a spread; non-trivial = the k-mer has at least two different bases',
        'theorems': [],
        'assumptions': ['IntKmer/VarIntKmer code is as transcribed in coq/Packed/KmerModel.v (checked by this run on the '
                        'generated cases only)'],
    },
    'C11': {
        'level_text': 'Coq theorems (Properties/C11.v): every finite in-range history of value-producing operations (empty, '
                      'from_u64/bytes/ascii, extend_left/right, rc, set, packed set, min_rc) on any of the 19 shipped types succeeds, '
                      'keeps the unused lanes zero and spells what the same history does to the plain string (induction over the '
                      'history on top of the C10 refinements); hence ==, cmp and the derived Hash input of any two results are those '
                      'of the strings (compare_lex by induction on base-4 digits, no sweep); sort/dedup/membership corollaries.',
        'level_note': 'Hash is proved about the bytes fed to the Hasher (the storage word, little endian); collisions of the hasher '
                      'itself are outside the property. boomphf lookup is exercised by the harness only. Model transcription trusted '
                      'as for C10. No axioms.',
        'technique': 'invariant (wf) + refinement by induction over operation histories (Coq), differential correspondence',
        'rule': 'random histories (1-40 ops) per type from every constructor; for each a second route to the same string (K extends, '
                'per-position sets in random order, packed runs with garbage payload, rc routes, lower-case ascii) plus near misses; '
                '==, cmp, recorded Hasher input, sort+dedup, binary_search and BoomHashMap lookups compared with the list spec; '
                'non-trivial = all cases (every history has >= 1 op)',
        'assumptions': ['derive(PartialEq, Ord, Hash) act on the storage field only (PhantomData contributes nothing) - checked by '
                        'the recorded hasher input and cmp results on the generated cases'],
    },
    'C05': {
        'level_text': 'Coq theorems (Properties/C05.v) about a line-by-line model of filter_kmers (coq/Algo/Filter.v: KmerExtsIter in '
                      'positional form, min_rc_flip + Exts::rc, pass planning arithmetic, bucket ranges + assertion, bucket(), per-pass '
                      'fill, stable sort, adjacent grouping, summarizer call, report_all): C05_filter_spec - for EVERY summarizer, every '
                      'K >= 4, all reads over ACGT with arbitrary boundary extensions and labels, both strandedness values, both '
                      'report_all values and every memory setting with memory_size*unit >= 1, the model does not panic and returns '
                      'exactly the reference grouping (distinct keys ascending = sort+dedup; summarizer called once per key on exactly '
                      'that key\'s observations in input order) and makes the planned number of passes; C05_pass_independent (result '
                      'independent of memory_size, unit, size_of); C05_ranges_tile (all 257 reachable bucket widths: ranges ascending, '
                      'contiguous, buckets 0..255 each once; by vm_compute); C05_bucket_monotone; C05_sort_stable / C05_group_sorted; '
                      'C05_count_filter_spec (saturating u16 count = min(65535, #obs), exts = bitwise union), '
                      'C05_count_filter_set_spec (distinct labels ascending); zero budget = division-by-zero panic. All closed, no axioms. '
                      'The implementation is compared on every generated case with the reference grouping (s.filter, through iter() and '
                      'through get()) and with the pass-by-pass model incl. the hooked pass count (f.filter).',
        'level_note': 'Trusted/not proved: the hand transcription of filter.rs/lib.rs into the model (checked by the differential run '
                      'only; the Exts masks/shifts come from the source pins, the constants 256, 10^9 and the bucket shifts 6/4/2 are '
                      'written in the model); std sort_by_key is stable and itertools group_by groups adjacent equal keys (modelled as '
                      'insertion sort + adjacent grouping); BoomHashMap2 (only read back with iter()/get(), compared as a key-sorted '
                      'table); usize overflow of input_kmers*size_of and memory_size*unit is not modelled (unbounded N); the k-mer '
                      'iterator is modelled positionally (its incremental extend_right form is C13\'s subject); packed k-mers are '
                      'identified with their base lists (C10/C11). CountFilterSet\'s observation counter is an i32 in the code '
                      '(fewer than 2^31 observations per k-mer assumed).',
        'technique': 'list induction over a sort/group pipeline + vm_compute sweep of the finitely many pass plans (Coq), differential correspondence',
        'rule': 'read sets (1-9 reads, some shorter than K or empty) from a motif grammar (random chunk, reuse/rc of an earlier chunk, '
                'hairpin, even palindrome of length K, tandem repeat, homopolymer, 1-3 letter alphabet, (AT)^m/(CG)^m); K in '
                '{4,5,6,8} mostly, {15,16,31,32}; labels u8/u32; boundary Exts empty (3/4) or random; DnaString and DnaBytes '
                'containers; both strandedness and report_all values; CountFilter(n)/CountFilterSet(n), n in 0..4; memory_size and '
                'hook unit chosen so that the pass count sweeps 1..128 and 256 (histogram in the # stat line of each case file), '
                'zero budget (panic) included; thorough: 40000+30000-observation homopolymers for the saturating count and '
                'thresholds 65535/65536/70000. non-trivial = some (canonical) k-mer observed at least twice; for f.filter additionally >= 2 passes',
        'theorems': ['C05_ranges_tile', 'C05_plan_sz_range', 'C05_bucket_monotone', 'C05_sort_stable', 'C05_group_sorted',
                     'C05_filter_spec', 'C05_pass_independent', 'C05_zero_budget_panics', 'C05_ref_keys', 'C05_count_filter_spec',
                     'C05_union_exts_spec', 'C05_count_filter_set_spec'],
        'assumptions': ['filter.rs / KmerExtsIter / Exts are as transcribed in coq/Algo/Filter.v and coq/Packed/ExtsMini.v (checked by this run)',
                        'slice::sort_by_key is stable; itertools group_by yields maximal runs of adjacent equal keys',
                        'no usize overflow in input_kmers*size_of and memory_size*unit',
                        'K >= 4 and all bases < 4 (bucket() reads positions 0..3)'],
    },
    'C06': {
        'level_text': 'FILTER HALF ONLY (k-mer table; Properties/C06Filter.v, collected by Properties/C06.v). Coq theorems on the '
                      'reference grouping, which C05_filter_spec proves equal to the filter_kmers model: C06_keys_canonical / '
                      'C06_keys_complete (unstranded: every key is the lexicographic minimum of a read k-mer and its reverse '
                      'complement, and every read k-mer is represented); C06_stranded_exact (stranded: keys are exactly the forward '
                      'k-mers, extension sets never flipped); C06_filter_rc_invariant (unstranded, ANY subset of reads replaced by their '
                      'reverse complements with boundary extensions flipped along, any summarizer whose acceptance/summary depend on '
                      'the multiset of labels and whose extension set is the union: same keys, same acceptance, same summaries, same '
                      'extension sets - for a palindromic key only the symmetrised set e|rc(e) is invariant, palindrome_exts_rel); '
                      'C06_filter_rc_count_filter / _set: the same as the boolean checker table_rel for CountFilter and '
                      'CountFilterSet; C06_count_filter_perm / _set_perm. All closed, no axioms.',
        'level_note': 'NOT covered here: the graph half of C06 (partition, payloads and adjacencies of the compressed graph; sharded and '
                      're-compressed pipelines) - to be merged from the graph work. The palindrome caveat is necessary: the non-vacuity '
                      'example exhibits two runs whose stored extension sets of a palindromic key differ. Trusted as for C05.',
        'technique': 'permutation/relational reasoning over the observation list + exhaustive 256(x256) sweeps of the Exts operations (Coq), differential correspondence',
        'rule': 'read sets as for C05; unstranded; for every read set with n <= 4 (thorough: 6) reads ALL 2^n flip subsets, sampled '
                'beyond; the implementation\'s table on the flipped reads is checked by the Coq checker table_rel against the reference '
                'grouping of the UNFLIPPED reads (chk.filter_rc) and against its own reference grouping (s.filter); one stranded run '
                'per read set; non-trivial = some canonical k-mer observed at least twice and at least one read flipped',
        'theorems': ['C06_keys_canonical', 'C06_keys_complete', 'C06_stranded_exact', 'C06_filter_rc_invariant',
                     'C06_filter_rc_count_filter', 'C06_filter_rc_count_filter_set', 'C06_count_filter_perm', 'C06_count_filter_set_perm'],
        'assumptions': ['as C05', 'a flipped read carries the reverse complement (Exts::rc) of its boundary extensions',
                        'graph half of the property not covered by this entry'],
    },
}
