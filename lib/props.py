"""Per-property configuration of the checks (what is proved, what the correspondence explores)."""

TRUSTED = [
    'Coq 8.16.1 kernel incl. its bytecode VM (vm_compute); native_compute not used',
    'no axioms declared; Print Assumptions of every property theorem is recorded under print_assumptions',
    'hand-written Gallina models of the Rust code (coq/Packed, coq/Algo) - modelled, not verified; tied to /repo by '
    'the source pins (pins/extract_pins.py -> coq/Gen/SourceConsts.v) and by this correspondence run',
    'extraction: ExtrOcamlBasic only (bool, option, unit, list, prod, sumbool, sumor mapped; andb/orb inlined); '
    'nat/positive/N/Z/ascii/string stay inductive; OCaml 4.13.1; ocaml/driver.ml (parser/printer/comparison)',
    'Rust harness /verif/harness (generators, catch_unwind, serialisation) and the dv orchestrator',
]


def is_spec_op(op):
    """ops whose model side is a Layer-S specification function or a verified checker: a mismatch on them is a
    failing input for the property itself, not just a broken correspondence"""
    return op.startswith(('s.', 'chk.'))


NOT_CLAIMED = {}

PROPS = {
    'C10': {
        'level_text': 'Coq theorems (Properties/C10.v): for each of the 19 shipped k-mer configurations, every storage value and '
                      'every in-range argument, each modelled operation (get, set_mut, set_slice_mut, extend_left/right, rc, '
                      'to/from_u64, hamming_dist, at/gc_count, from_bytes/ascii, to_string, kmers_from_bytes/ascii) succeeds and '
                      'decodes to the same operation on the plain K-letter list. Values are universally quantified (symbolic '
                      'bit-vector reflection); configurations x positions x run lengths are enumerated by vm_compute. The model '
                      'is tied to the code by regenerated mask/table constants and a differential run on >10^6 cases.',
        'level_note': 'Trusted: Coq kernel+VM; the hand transcription of kmer.rs/lib.rs into coq/Packed/KmerModel.v (checked only by '
                      'the differential run and the pins); extraction (ExtrOcamlBasic); harness. No axioms.',
        'technique': 'reflective symbolic bit-vector sweep lifted to all values + list induction (Coq), differential correspondence',
        'rule': 'all 19 shipped k-mer types; storage values: exhaustive for K<=6 (all 4^K), else structured (all-A, all-T, '
                'alternating, single bit, single lane, palindromes) + random; every op at every position/base/run (K<=8 or '
                'thorough) or a spread; non-trivial = the k-mer has at least two different bases',
        'theorems': [],
        'assumptions': ['IntKmer/VarIntKmer code is as transcribed in coq/Packed/KmerModel.v (checked by this run on the '
                        'generated cases only)'],
    },
    'C11': {
        'level_text': 'Coq theorems (Properties/C11.v): every finite in-range history of value-producing operations (empty, '
                      'from_u64/bytes/ascii, extend_left/right, rc, set, packed set, min_rc) on any of the 19 shipped types succeeds, '
                      'keeps the unused lanes zero and spells what the same history does to the plain string (induction over the '
                      'history on top of the C10 refinements); hence ==, cmp and the derived Hash input of any two results are those '
                      'of the strings (compare_lex by induction on base-4 digits, no sweep); sort/dedup/membership corollaries.',
        'level_note': 'Hash is proved about the bytes fed to the Hasher (the storage word, little endian); collisions of the hasher '
                      'itself are outside the property. boomphf lookup is exercised by the harness only. Model transcription trusted '
                      'as for C10. No axioms.',
        'technique': 'invariant (wf) + refinement by induction over operation histories (Coq), differential correspondence',
        'rule': 'random histories (1-40 ops) per type from every constructor; for each a second route to the same string (K extends, '
                'per-position sets in random order, packed runs with garbage payload, rc routes, lower-case ascii) plus near misses; '
                '==, cmp, recorded Hasher input, sort+dedup, binary_search and BoomHashMap lookups compared with the list spec; '
                'non-trivial = all cases (every history has >= 1 op)',
        'assumptions': ['derive(PartialEq, Ord, Hash) act on the storage field only (PhantomData contributes nothing) - checked by '
                        'the recorded hasher input and cmp results on the generated cases'],
    },
    'C07': {
        'level_text': 'Coq theorems (Properties/C07.v) about an executable Gallina model of Scanner::scan that follows msp.rs line '
                      'by line (MinPos order with ties to the rightmost, find_min, the rescan / strict-improvement loop, interval '
                      'synthesis with the as u32 / as u16 casts): for every sequence, all 1 <= p <= k <= |seq| < 2^32 with '
                      '2k-p < 2^16 and EVERY score function (a Section variable: constant and heavily tied scores included) the scan '
                      'succeeds and its intervals satisfy clauses (a)-(f) of the property (starts from 0 strictly increasing, overlap '
                      'exactly k-1, last ends at |seq|, hence every k-mer start in exactly one interval; k <= len <= 2k-p; minimizer = '
                      'p-mer at the reported position, inside every k-mer; minimal score in the interval; an interval ends only when '
                      'the minimizer leaves the next k-mer or a strictly better p-mer enters). Proof by loop invariant, no sweep. '
                      'The guard 2k-p < 2^16 is necessary: the wrap of the u16 length is exhibited on the same model '
                      '(scan_len_wrap_refuted) and on the real code (known finding F7). Index panics and usize underflow are explicit in '
                      'the model that is run against the code and proved absent under the guards. A boolean checker of (a)-(f), '
                      'proved sound, is run on the intervals the implementation reports.',
        'level_note': 'Trusted: Coq kernel+VM; the hand transcription of msp.rs into coq/Algo/Scan.v (p-mers as base lists; the packed '
                      'p-mer type enters through the C10/C11 refinements get_kmer = substring, extend_right = shift); extraction; '
                      'harness. Index panics and usize underflow are modelled (scan_checked) and proved absent under the guards '
                      '(C07_no_inner_panic). No axioms. Known finding (open, not repaired): 2k-p > 65535.',
        'technique': 'loop-invariant proof over an executable model (Coq), verified boolean checker on implementation outputs, '
                     'differential correspondence',
        'rule': 'p-mer types Kmer2,3,4,5,6,8,10,12,16; k = p..p+9 and three larger; sequences of length k..6k over alphabets of 1-4 '
                'letters with homopolymer runs, tandem repeats and hairpins, through DnaSlice / DnaString / DnaBytes; scores: '
                'lexicographic rank, AT count, constant, 2-4 valued random table, random permutation, permutation with min(x, rc x); '
                'k = 140, 300 (lengths beyond 255); simple_scan with explicit permutation tables (p <= 5); out-of-guard cases '
                '(|seq| < k, k < p) compared on panic; the F7 witness; non-trivial = the implementation reports at least two '
                'intervals',
        'theorems': ['C07_scan_spec (full: clauses a-f + covered_once, all score functions, guard 2k-p < 2^len_bits)',
                     'C07_no_inner_panic (bounds-checked model = total model on all inputs)', 'C07_scan_raw_ok', 'C07_covered_once',
                     'C07_simple_scan_spec', 'C07_check_scan_sound (checker sound w.r.t. scan_ok)',
                     'C07_scan_len_wrap_refuted (the guard is necessary; F7 at width 4)'],
        'assumptions': ['Scanner::scan is as transcribed in coq/Algo/Scan.v (checked by this run on the generated cases only; field '
                        'widths, assert bounds and casts are re-read from msp.rs on every run)',
                        'the caller\'s score closure is a pure function of the p-mer'],
    },
    'C08': {
        'level_text': 'Coq theorems (Properties/C08.v) about an executable model of msp_sequence on top of the scanner model: every '
                      'emitted piece is the exact substring of the read at the tiling position and its extensions are the flanking '
                      'bases (none at a read end) (piece_exact); with an injective permutation table of 4^p entries the bucket of the '
                      'piece covering ANY occurrence of a k-mer equals shard_of(k-mer), a function of the k-mer alone (bucket_pure), '
                      'which in rc mode is invariant under reverse complement (bucket_rc). Guards as in C07 (in particular 2k-p < 2^16: '
                      'beyond it msp_sequence inherits the wrapped length, known finding). A boolean checker of piece exactness and '
                      'bucket purity over all occurrences in a read set, proved sound, is run on the implementation output.',
        'level_note': 'Trusted as for C07; the piece container V is represented by the string it holds (V::from_slice and get are the '
                      'business of C14/C17) and by its max_len. No axioms.',
        'technique': 'proof on top of the C07 scanner theorems (Coq), boolean checker on implementation outputs, differential '
                     'correspondence',
        'rule': 'read sets of 1-4 reads built from shared chunks in both orientations (recurring k-mers on both strands), p in '
                '{2,3,4,5,6,8}, k = p+1..p+9 and two larger, default and random explicit permutations (p <= 5), rc mode on/off, piece '
                'containers DnaBytes, DnaString, Lmer1/2/3 (including max_len < 2k-p: panic expected); the 2k-p > 65535 witness; '
                'non-trivial = some k-mer (canonical in rc mode) is observed at least twice in the read set',
        'theorems': ['C08_piece_exact (full)', 'C08_bucket_pure (full: injective table of 4^p entries or default; all reads, all '
                     'occurrences)', 'C08_bucket_rc (full)', 'C08_check_msp_sound (checker sound w.r.t. msp_out_ok)'],
        'assumptions': ['msp_sequence is as transcribed in coq/Algo/Msp.v (checked by this run on the generated cases only)',
                        'the permutation table is injective and has 4^p entries (hypothesis of bucket_pure)'],
    },
}
